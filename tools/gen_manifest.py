#!/usr/bin/env python3
"""Generates /verif/MANIFEST.json from the table below (keeps it valid and in one place)."""
import json, os, subprocess

HERE = os.path.dirname(os.path.dirname(os.path.abspath(__file__)))

TRUST = ("Trusted: the simulator's own reference codec/crypto (self-tested against RFC 1321/2202/4231/5769 vectors at start-up), "
         "the ledger and oracle tables, rustc/std. Caller obligations assumed: monotonic time, events() pulled after every call. "
         "Credential strings come from a fixed table whose OpaqueString result is known a priori (PRECIS is not re-implemented). Sampling, not proof.")

CHECKS = {
    "C05": dict(cat="exploration", ref="DESIGN.md §6 C05",
        tech="deterministic simulation: seeded search over fault/schedule plans, ledger invariants (single final outcome, silence after it) + late-response probes at quiescence",
        text="Seeded random plans drive the real StunClient through loss, duplication, delay past the final time-out, replay, corruption, late/early timers and restarts on both transports and with every mechanism; every step is checked for a second final outcome, for packets/timers/events naming a finished transaction and for late responses that are not discarded; at quiescence every request must have exactly one outcome and correctly protected late responses are probed. Exploration is the right level: the property quantifies over interleavings and fault sequences that can only be sampled."),
    "C06": dict(cat="exploration", ref="DESIGN.md §6 C06",
        tech="deterministic simulation with discrete-event clock: seeded search over timer lateness/earliness schedules, compared with the RFC 8489 schedule arithmetic",
        text="For every timer call of every explored run the oracle derives, from (t0, RTO, Rc, Rm) alone, whether each awaiting request must retransmit, must fail or must stay silent at that instant (pending-expiry rule: missed slots skipped, deadline fixed) and compares with what the client did; retransmissions must be byte-identical and at most Rc; while the RFC 6298 reference has seen no round-trip sample the request must be scheduled with the configured RTO whatever happened to earlier requests."),
    "C11": dict(cat="exploration", ref="DESIGN.md §6 C11",
        tech="deterministic simulation: seeded search over shared-timer schedules, notification checked against ledger-derived pending expiries, bounded liveness after faults stop",
        text="A controller that follows the documented contract literally (one armed timer, replaced by each notification, fired however late) drives 2-5 overlapping requests; after every successful send and every timer call the notification must exist iff something is awaiting, name a request with the earliest pending expiry and give exactly the remaining time; once faults stop every request must finish."),
    "C12": dict(cat="exploration", ref="DESIGN.md §6 C12",
        tech="deterministic simulation: seeded random walks, refusal compared with a ledger count of unfinished requests, capacity-fill probe at quiescence",
        text="Random walks of up to 40 sends mixed with indications, every kind of response, rejected buffers and expiries under limits 0-4 and 10; send_request must be refused exactly when the ledger's count of unfinished requests equals the limit, refused calls produce no event, and at quiescence the whole capacity is available again (probe: limit sends accepted, the next refused)."),
    "C07": dict(cat="exploration", ref="DESIGN.md §6 C07, Appendix A",
        tech="deterministic simulation: scripted server personalities x network faults, every delivery classified by an independent HMAC verifier and compared with the admitted outcomes",
        text="A reference server answers each (re)transmission with a reply drawn from the property's catalogue (valid MI / SHA256, both, none, corrupted MAC, MAC under a password one character off, the non-agreed algorithm, duplicates) for success and error responses and indications, on both transports, while timers and further requests interleave; each delivery is classified with an independent HMAC implementation and the client's reaction (deliver / ignore / ProtectionViolated now / final failure reason) must lie in the set the property admits; every emitted request must carry USERNAME and exactly the integrity attributes the agreed algorithm implies, verifying independently."),
    "C08": dict(cat="exploration", ref="DESIGN.md §6 C08, Appendix B/C",
        tech="deterministic simulation: challenge/retry conversations against a scripted reference server; every client request checked by an independent RFC 8489 9.2.4 acceptance predicate",
        text="Conversations of up to 5 application requests with up to 4 retries each against a reference server whose behaviour per request is drawn from the property's list (401 variants, 438, authenticated / unauthenticated / wrongly keyed success, other errors, unsupported algorithms, missing realm/nonce), with application-supplied credential attributes and network faults on top. The oracle follows observationally which challenge the client accepted, runs every emitted request through an independent implementation of the server-side acceptance rules, and checks each incoming message's outcome against the admitted set. Two request-forming shapes pinned by the existing tests are recorded as known findings with narrow keys."),
    "C10": dict(cat="fault_enumeration", ref="DESIGN.md §6 C10",
        tech="deterministic simulation with systematic fault enumeration: every single-bit fault and four byte-substitution classes at every position of sampled in-flight messages; client enforcement under seeded plans",
        text="Codec half: for sampled in-flight messages carrying FINGERPRINT (built by the real client and by the reference server) the independent CRC must equal the attribute, and every single-bit fault at every position plus four byte-substitution classes per byte are applied in turn; the altered bytes must never be accepted as carrying a valid FINGERPRINT by the real decoder/validator (differential against the independent verifier). Client half: under seeded plans with every mechanism, everything emitted ends with one valid FINGERPRINT and a received message whose FINGERPRINT is absent or wrong returns an error, produces no event and completes nothing."),
    "C13": dict(cat="exploration", ref="DESIGN.md §6 C13",
        tech="deterministic simulation: wire tap on client output decoded by an independent parser/verifier across all explored histories",
        text="Every packet the client emits along the explored histories is parsed and verified independently: class/method as asked, fresh transaction id, application attributes (one per type, first-insertion order, last value) first, then only the mechanism's credential attributes, then at most one MI, one MI-SHA256 and one FINGERPRINT in that order, each verifying; no type twice; every retransmission byte-identical. Which credential attributes the mechanism requires in the credential state reached along the history is decided by the state the C07/C08 oracles track (short-term: USERNAME and both integrity attributes until an algorithm is agreed by an authenticated response, then exactly that one; long-term: none before the first accepted challenge, afterwards what an RFC 8489 9.2.4 server insists on); application lists include decoded FINGERPRINT / integrity values that cannot be re-encoded and must be replaced, not choked on. The two long-term request shapes pinned by the existing tests are known findings here as under C08."),
    "C15": dict(cat="exploration", ref="DESIGN.md §6 C15",
        tech="deterministic simulation with discrete-event clock: long seeded transaction histories with delays, retransmissions and idle gaps around 600 s, compared with a double-precision RFC 6298 reference",
        text="Histories of up to 120 transactions per run on unreliable transport, with response delays from microseconds to beyond the first retransmission, transactions completed by 401/Retry, idle gaps, stalls and the exact 600 s boundary; after every send and every response the client's RTO (read through the H2 snapshot, and through the public API whenever a request is sent while nothing else is outstanding) must equal an f64 RFC 6298 reference (alpha 1/8, beta 1/4, K 4, granularity, Karn's rule, staleness) within 1e-5 relative + 1 us."),
    "C16": dict(cat="exploration", ref="DESIGN.md §6 C16",
        tech="deterministic simulation of the stream transport: seeded segmentation schedules fed to the real StunPacketDecoder, compared call by call with an independent model; exhaustive 1-/2-cut sweep of small streams",
        text="The byte stream server->client (1-3 generated packets, zero-length messages and optionally one damaged header included) is cut by the simulated stream network into chunks (empty, one byte, inside a first or later header, spanning packets) under two seeded chunkings per run and fed to the controller's read loop around the real decoder with buffer sizes around the packet size; every call's result (packet bytes, consumed count, MoreBytesNeeded(None/Some(n)), error kind/size/consumed/buffer) must equal an independent model; both chunkings must yield the same packets. Systematic part: every 1- and 2-cut chunking of generated streams up to 110 / 300 bytes."),
    "C17": dict(cat="exploration", ref="DESIGN.md §6 C17",
        tech="deterministic simulation with exact re-execution: twin run of the same plan with the rejected deliveries turned into drops; abstract histories compared step by step (metamorphic, public API only)",
        text="Buffers of every rejected kind (undecodable, request class, unknown id, finished id, bad/missing fingerprint, failed authentication to be ignored, refused indication, indications carrying an outstanding id) land at arbitrary positions of otherwise ordinary histories. A rejected call must produce no event; then the very same plan is executed again with exactly those deliveries dropped and both abstract histories (transactions renamed by creation order, MAC/CRC values blanked) must agree step by step - same packets, timers and durations, outcomes, capacity and late-response probes - except for the documented ProtectionViolated-instead-of-TimedOut marker."),
    "C03": dict(cat="exploration", ref="DESIGN.md §6 C03",
        tech="deterministic simulation: hostile peer + mutating network against clients in mid-conversation, catch_unwind around every call, wire tap through all 16 decoder configurations, stream reassembler and twin run",
        text="Structure-aware faults are applied to valid in-flight messages addressed to outstanding transactions (bit/byte flips, truncation, extension, header/attribute/nested length edits, multi-byte UTF-8 and quoting characters injected into string attributes, spliced attributes), a hostile server personality sends strings placed around the nonce-cookie offsets, and random / STUN-like bytes are injected, while the client is in every credential state reachable in a few operations. No call may panic; every hostile datagram is additionally decoded in all 16 configurations (reported size = 20 + header length <= input, result independent of trailing bytes), passed to get_input_text and to StunPacketDecoder in a seeded chunking; rejected hostile buffers are removed in a twin run to show the client stayed usable."),
    "C04": dict(cat="fault_enumeration", ref="DESIGN.md §6 C04",
        tech="deterministic simulation of authenticated traffic over a corrupting channel + systematic enumeration of every single-bit fault over protected prefix and MAC of sampled in-flight messages, real vs independent verifier",
        text="Authenticated traffic between the real client and the reference server (short-term; long-term MD5 and SHA-256 keys; every legal tail) is harvested from simulated conversations. For each sampled message whose MAC equals the independently computed HMAC under the independently derived key: the untampered message must be accepted by decode(with_key, with_validation) and by validate(get_input_text); a key derived from a password one character off must be rejected; then every single-bit fault in every byte of the protected prefix (except the two header-length bytes) and of the MAC is applied in turn and must never be accepted as authenticated. Along the conversations themselves the client's accept/reject decisions are compared with the independent verifier."),
    "C09": dict(cat="exploration", ref="DESIGN.md §6 C09",
        tech="deterministic simulation with on-path attribute-splice faults; wire tap compares every decoder configuration with an independent 3-flag admission automaton; systematic sweep of all suffixes up to length 3/4 per base tail",
        text="The rule exists so that attributes injected after the integrity/FINGERPRINT of a valid message by anything on the path have no effect; that fault is what is simulated. Spliced suffixes (ordinary, unknown, MI, MI-SHA256, FINGERPRINT, each with right or wrong checksum, and two RFC-valid attributes whose values this library's value decoders refuse: a truncated MI-SHA256 and a non-ASCII REALM) are appended to valid in-flight messages with every base tail; the decoded attribute list under all 16 configurations, the validation verdict and what the client delivers are compared with an independent admission automaton; all 32 (state, next kind) pairs must be visited. The exhaustive 87,380-sequence enumeration of the property's quantifier is bounded enumeration of inputs (another technique) and is not claimed; suffixes up to length 4 per base tail are swept. Client-level reading: a message the client must accept by the C10/C07/C08 rules must not be rejected because it carries attributes the rule does not admit."),
}

NOT_APPLICABLE = {
    "C01": "pure function of (message, buffer): no schedule, clock, fault or multi-step state for a simulator to control; deciding it is input enumeration, a different technique family",
    "C02": "pure function of the message (byte-level differential test against an independent codec over enumerated inputs); nothing to schedule or inject",
    "C14": "pure function of (message, buffer length/content); the only simulation-shaped facet (client handed a short buffer) is exercised as a fault kind under C05/C11/C12 but buffer sweeps and the 64 KiB boundary are input enumeration",
    "C18": "relations between results of one pure function under different option values on the same input; nothing to schedule or inject",
    "C19": "public constructors/accessors/mutators of value types in short sequential call sequences; no clock, I/O, fault or concurrency (all mutators take &mut self)",
}
PENDING = {}

def hook_commits():
    try:
        out = subprocess.check_output(["git", "-C", "/repo", "log", "--format=%H %s"], text=True)
        return [l.split()[0] for l in out.splitlines() if "verif hook" in l][::-1]
    except Exception:
        return []

def main():
    checks = []
    for pid in sorted(CHECKS):
        c = CHECKS[pid]
        checks.append({
            "property_id": pid,
            "quick_cmd": f"./check {pid} quick",
            "thorough_cmd": f"./check {pid} thorough",
            "evidence_file": f"/verif/evidence/{pid}.json",
            "replay_cmd_template": "./check replay {path}",
            "engine": "rustun-sim",
            "level_claimed": {"category": c["cat"], "text": c["text"], "design_ref": c["ref"]},
            "level_note": TRUST,
            "technique": c["tech"],
        })
    na = [{"property_id": k, "reason": v} for k, v in sorted({**NOT_APPLICABLE, **{k: v for k, v in PENDING.items() if k not in CHECKS}}.items())]
    m = {
        "version": 1,
        "setup_cmd": "./check selftest build",
        "hooks": {
            "guard": "cargo feature `verif` on stun-rs and stun-agent (off by default)",
            "enable": "the simulator crate /verif/sim depends on /repo/stun-rs and /repo/stun-agent by path with features = [\"verif\"]; ./check rebuilds it (cargo build --release --offline) before every run",
            "baseline_off_cmd": "cd /repo && cargo test --workspace --no-fail-fast --offline",
            "source_commits": hook_commits(),
            "add_only": True,
        },
        "engines": [{
            "name": "rustun-sim",
            "path": "/verif/sim",
            "serves_properties": sorted(CHECKS),
            "kind_free_text": "deterministic discrete-event simulator with fault injection around the real sans-IO StunClient / StunPacketDecoder: seeded PRNG decides every configuration, application action, network fate, timer lateness and server reply; plans are recorded, minimised and replayable; no third-party dependencies",
        }],
        "checks": checks,
        "not_applicable": na,
        "notes": "All checks: exit 0 = held on everything explored (KNOWN-FINDING lines possible), 1 = VIOLATION line with a replay file under /verif/replays, 2 = harness error. VERIF_SEED selects the seed (default 1). Known findings live in /verif/known_findings.txt.",
    }
    with open(os.path.join(HERE, "MANIFEST.json"), "w") as f:
        json.dump(m, f, indent=1)
        f.write("\n")

if __name__ == "__main__":
    main()
