#!/bin/bash
# Runs every patch of a directory through run.sh (frozen simulator copy, scratch worktree).
#   usage: run_all.sh <scratch-worktree> <dir-with-diffs> <out-file>
WT="$1"; DIR="$2"; OUTF="$3"
HERE="$(cd "$(dirname "${BASH_SOURCE[0]}")" && pwd)"
FROZEN="/tmp/verif-scratch/$(basename "$WT")/verif-sim-src"
mkdir -p "$FROZEN"
rsync -a --delete --exclude target "$HERE/../../sim/" "$FROZEN/"
: > "$OUTF"
for m in "$DIR"/*.diff; do
  SIM_SRC="$FROZEN" RUNS_DIV="${RUNS_DIV:-4}" "$HERE/run.sh" "$WT" "$m" >> "$OUTF" 2>&1
done
echo DONE >> "$OUTF"
