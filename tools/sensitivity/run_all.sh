#!/bin/bash
# Runs every patch of a directory through run.sh (frozen simulator copy, scratch worktree).
#   usage: run_all.sh <scratch-worktree> <dir-with-diffs> <out-file>
WT="$1"; DIR="$2"; OUTF="$3"
HERE="$(cd "$(dirname "${BASH_SOURCE[0]}")" && pwd)"
FROZEN="$WT/.verif-sim-src"
rsync -a --delete --exclude target "$HERE/../../sim/" "$FROZEN/"
: > "$OUTF"
for m in "$DIR"/*.diff; do
  SIM_SRC="$FROZEN" RUNS_DIV="${RUNS_DIV:-4}" "$HERE/run.sh" "$WT" "$m" >> "$OUTF" 2>&1
done
echo DONE >> "$OUTF"
