#!/bin/bash
# Sensitivity driver: applies a patch to a SCRATCH worktree of /repo (never to /repo itself), builds a
# scratch copy of the simulator against it and runs the quick checks; prints which properties raise a
# VIOLATION. The scratch worktree is left clean afterwards.
#   usage: run.sh <scratch-worktree> <patch.diff> [props...]     (env RUNS_DIV=4 divides the quick budgets)
set -u
WT="$1"; PATCH="$2"; shift; shift
if [ "$PATCH" != "-" ]; then PATCH="$(readlink -f "$PATCH")"; fi
PROPS="${*:-C03 C04 C05 C06 C07 C08 C09 C10 C11 C12 C13 C15 C16 C17}"
HERE="$(cd "$(dirname "${BASH_SOURCE[0]}")" && pwd)"
VERIF="$(cd "$HERE/../.." && pwd)"
DIV="${RUNS_DIV:-4}"
# scratch build and output live OUTSIDE the worktree (sub-agents that work there must not see the simulator)
SCR="/tmp/verif-scratch/$(basename "$WT")"
SIM="$SCR/verif-sim"
OUT="$SCR/verif-out"
mkdir -p "$SIM" "$OUT/replays" "$OUT/evidence"
rsync -a --delete --exclude target "${SIM_SRC:-$VERIF/sim}/" "$SIM/"
sed -i "s#/repo/stun-rs#$WT/stun-rs#; s#/repo/stun-agent#$WT/stun-agent#" "$SIM/Cargo.toml"
cp "$VERIF/known_findings.txt" "$OUT/"
git -C "$WT" checkout -q -- . || exit 2
if [ "$PATCH" != "-" ]; then git -C "$WT" apply "$PATCH" || { echo "PATCH DOES NOT APPLY: $PATCH"; exit 2; }; fi
( cd "$SIM" && CARGO_NET_OFFLINE=true cargo build --release --offline >"$OUT/build.log" 2>&1 ) || { echo "BUILD FAILED (see $OUT/build.log)"; git -C "$WT" checkout -q -- .; exit 2; }
declare -A QUICK=( [C03]=150000 [C04]=60000 [C05]=400000 [C06]=400000 [C07]=300000 [C08]=300000 [C09]=150000 [C10]=300000 [C11]=400000 [C12]=150000 [C13]=300000 [C15]=60000 [C16]=1500000 [C17]=250000 )
line="$(basename "$PATCH" .diff):"
for p in $PROPS; do
  n=$(( ${QUICK[$p]} / DIV ))
  find "$OUT/replays" -name '*.replay' -delete
  VERIF_DIR="$OUT" "$SIM/target/release/rustun-sim" check "$p" quick --runs "$n" >"$OUT/$p.log" 2>&1
  rc=$?
  if [ $rc -eq 1 ]; then
    keys=$(grep -c "^VIOLATION" "$OUT/$p.log")
    first=$(grep -m1 "^  key:" "$OUT/$p.log" | sed 's/^  key: //')
    # earliest run index at which any violation key was first seen (margin of detection within the budget)
    frun=$(grep -h "first seen in run" "$OUT"/replays/*.replay 2>/dev/null | sed 's/.*first seen in run \([0-9]*\).*/\1/' | sort -n | head -1)
    line="$line $p=VIOLATION($keys;$first;first_run=${frun:-?}/$n)"
  elif [ $rc -eq 0 ]; then line="$line $p=ok"
  else line="$line $p=HARNESS-ERROR($rc)"; fi
done
git -C "$WT" checkout -q -- .
echo "$line"
