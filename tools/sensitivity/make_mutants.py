#!/usr/bin/env python3
"""Generates the hand-written sensitivity mutants as patch files (run against a scratch worktree)."""
import subprocess, sys, os
WT = sys.argv[1] if len(sys.argv) > 1 else "/tmp/wt-mine"
OUT = os.path.join(os.path.dirname(os.path.abspath(__file__)), "mutants")
M = [
 # name, owners, file, old, new
 ("a-prefix-final-timeout-leak", "C05 C12", "stun-agent/src/client.rs",
  "                        self.transactions.remove(&transaction_id);\n", ""),
 ("b-prefix-fingerprint-flag", "C09", "stun-rs/src/context.rs",
  "        f.fingerprint = true;\n        return false;", "        f.message_integrity_sha256 = true;\n        return false;"),
 ("c-prefix-nonce-cookie-slice", "C03", "stun-rs/src/attributes/stun/nonce_cookie.rs",
  """        let flags = self
            .as_str()
            .get(NONCE_COOKIE_HEADER.len()..NONCE_COOKIE_HEADER.len() + 4)
            .ok_or_else(|| {
                StunError::new(
                    StunErrorType::InvalidParam,
                    "Security features are not valid base64 characters",
                )
            })?;
""", "        let flags = &self.as_str()[NONCE_COOKIE_HEADER.len()..NONCE_COOKIE_HEADER.len() + 4];\n"),
 ("drop-timeout-remove-on-finish", "C05 C11", "stun-agent/src/client.rs",
  "        self.timeouts.remove(transaction_id);\n        let Some(transaction) = self.transactions.remove(transaction_id) else {",
  "        let Some(transaction) = self.transactions.remove(transaction_id) else {"),
 ("skip-contains-key-check", "C05", "stun-agent/src/client.rs",
  "                if !self.transactions.contains_key(msg.transaction_id()) {", "                if false && !self.transactions.contains_key(msg.transaction_id()) {"),
 ("rm-doubling-becomes-plus-one", "C06 C11", "stun-agent/src/timeout.rs",
  "        self.rm *= 2;", "        self.rm += 1;"),
 ("late-call-shifts-deadline", "C06 C11", "stun-agent/src/timeout.rs",
  "                let mut next_timeout = latest + self.last_rto;\n", "                let mut next_timeout = instant;\n"),
 ("heap-ordered-by-duration", "C11 C06", "stun-agent/src/timeout.rs",
  "        let expires = self.instant + self.timeout;\n        let other_expires = other.instant + other.timeout;\n        expires.cmp(&other_expires)",
  "        self.timeout.cmp(&other.timeout)"),
 ("notification-full-duration", "C11", "stun-agent/src/timeout.rs",
  "                return Some((item.0.transaction_id, expires - instant));", "                return Some((item.0.transaction_id, item.0.timeout));"),
 ("capacity-check-off-by-one", "C12", "stun-agent/src/client.rs",
  "        if self.transactions.len() >= self.max_transactions {", "        if self.transactions.len() > self.max_transactions {"),
 ("attributes-add-pushes-duplicates", "C13", "stun-agent/src/message.rs",
  "            self.attributes[index] = attr;", "            let _ = index;\n            self.attributes.push(attr);"),
 ("fingerprint-before-integrity", "C13 C10", "stun-agent/src/message.rs",
  """        if let Some(attr) = val.integrity {
            attributes.push(attr);
        }
        if let Some(attr) = val.integrity_sha256 {
            attributes.push(attr);
        }
        if let Some(attr) = val.fingerprint {
            attributes.push(attr);
        }""",
  """        if let Some(attr) = val.integrity {
            attributes.push(attr);
        }
        if let Some(attr) = val.fingerprint {
            attributes.push(attr);
        }
        if let Some(attr) = val.integrity_sha256 {
            attributes.push(attr);
        }"""),
 ("learn-algorithm-from-indications", "C07", "stun-agent/src/st_cred_mech.rs",
  "                if msg.class() != MessageClass::Indication {\n                    // We only update", "                if true {\n                    // We only update"),
 ("drop-both-present-check", "C07", "stun-agent/src/st_cred_mech.rs",
  "            if msg.class() != MessageClass::Indication\n                && integrity.is_some()\n                && integrity_sha256.is_some()",
  "            if false\n                && integrity.is_some()\n                && integrity_sha256.is_some()"),
 ("ignore-anonymity-bit", "C08", "stun-agent/src/lt_cred_mech.rs",
  "    let user_hash = if user_anonymity {", "    let user_hash = if user_anonymity && false {"),
 ("keep-old-nonce-after-438", "C08", "stun-agent/src/lt_cred_mech.rs",
  "        params.nonce = nonce;\n        self.change_state(LongTermCredentialState::Retry(RetryCause::StaleNonce));",
  "        let _ = nonce;\n        self.change_state(LongTermCredentialState::Retry(RetryCause::StaleNonce));"),
 ("skip-fingerprint-for-error-responses", "C10", "stun-agent/src/client.rs",
  "        if self.use_fingerprint && !validate_fingerprint(buffer, &msg)? {",
  "        if self.use_fingerprint\n            && msg.class() != MessageClass::ErrorResponse\n            && !validate_fingerprint(buffer, &msg)?\n        {"),
 ("swap-rttvar-srtt-order", "C15", "stun-agent/src/rtt.rs",
  "            self.rttvar = self.rttvar.mul_f32(1.0 - BETA) + self.srtt.abs_diff(r).mul_f32(BETA);\n            self.srtt = self.srtt.mul_f32(1.0 - ALPHA) + r.mul_f32(ALPHA);",
  "            self.srtt = self.srtt.mul_f32(1.0 - ALPHA) + r.mul_f32(ALPHA);\n            self.rttvar = self.rttvar.mul_f32(1.0 - BETA) + self.srtt.abs_diff(r).mul_f32(BETA);"),
 ("sample-retransmitted-transactions", "C15", "stun-agent/src/client.rs",
  "                        transaction.instant = None;\n", ""),
 ("staleness-ge-600s", "C15", "stun-agent/src/client.rs",
  "if instant - last_request > Duration::from_secs(600)", "if instant - last_request >= Duration::from_secs(600)"),
 ("reassembler-remaining-off-by-one", "C16", "stun-agent/src/lib.rs",
  "                        let remaining = msg_length + MESSAGE_HEADER_SIZE - self.current_size;\n",
  "                        let remaining = msg_length + MESSAGE_HEADER_SIZE - self.current_size + (self.current_size == MESSAGE_HEADER_SIZE) as usize;\n"),
 ("finish-transaction-before-integrity", "C17 C07 C05", "stun-agent/src/client.rs",
  """        // Validate message integrity
        let mut integrity_event = None;""",
  """        if msg.class() != MessageClass::Indication {
            self.transaction_finished(msg.transaction_id(), instant);
        }
        // Validate message integrity
        let mut integrity_event = None;"""),
 ("marker-set-by-rejected-indication", "C17", "stun-agent/src/integrity.rs",
  "            // If the request was an indication, the response MUST be discarded\n            return IntegrityError::Discarded;",
  "            // If the request was an indication, the response MUST be discarded\n            self.transactions.insert(*message.transaction_id());\n            return IntegrityError::Discarded;"),
 ("mi-validate-compares-16-bytes", "C04", "stun-rs/src/attributes/integrity_attr.rs",
  "                    expected == self.0", "                    expected[..16] == self.0[..16]"),
 ("fingerprint-xor-not-applied-on-check", "C10", None, None, None),
]
def run(*a):
    return subprocess.run(a, cwd=WT, capture_output=True, text=True)
os.makedirs(OUT, exist_ok=True)
index = []
for name, owners, f, old, new in M:
    if f is None:
        continue
    run("git", "checkout", "--", ".")
    p = os.path.join(WT, f)
    s = open(p).read()
    if s.count(old) != 1:
        print("SKIP (anchor count %d): %s" % (s.count(old), name)); continue
    open(p, "w").write(s.replace(old, new))
    d = run("git", "diff").stdout
    open(os.path.join(OUT, name + ".diff"), "w").write(d)
    index.append((name, owners))
    run("git", "checkout", "--", ".")
open(os.path.join(OUT, "INDEX.txt"), "w").write("".join("%s %s\n" % (n, o) for n, o in index))
print("wrote", len(index), "mutants")
