// place at: stun-agent/tests/h2_f1_long_nonce_wedges_lt_client.rs
//
// A single 401 challenge whose NONCE (or REALM) is 510..=763 bytes long is
// accepted by the long-term client (the application is told to retry), but
// from then on *every* send_request fails with InternalError, because the
// stored NONCE/REALM cannot be encoded (decode limit 763 > encode limit 509).
use std::time::{Duration, Instant};
use stun_agent::{
    CredentialMechanism, RttConfig, StunAttributes, StunClient, StunClientEvent,
    StunClienteBuilder, TransportReliability,
};
use stun_rs::attributes::stun::{Nonce, Realm};
use stun_rs::methods::BINDING;
use stun_rs::{MessageDecoderBuilder, TransactionId};

fn raw_attr(t: u16, v: &[u8]) -> Vec<u8> {
    let mut o = vec![];
    o.extend_from_slice(&t.to_be_bytes());
    o.extend_from_slice(&(v.len() as u16).to_be_bytes());
    o.extend_from_slice(v);
    while o.len() % 4 != 0 {
        o.push(0);
    }
    o
}

fn raw_msg(msg_type: u16, tid: &TransactionId, attrs: &[Vec<u8>]) -> Vec<u8> {
    let body: Vec<u8> = attrs.iter().flatten().copied().collect();
    let mut m = vec![];
    m.extend_from_slice(&msg_type.to_be_bytes());
    m.extend_from_slice(&(body.len() as u16).to_be_bytes());
    m.extend_from_slice(&[0x21, 0x12, 0xa4, 0x42]);
    m.extend_from_slice(tid.as_bytes());
    m.extend_from_slice(&body);
    m
}

fn lt_client() -> StunClient {
    StunClienteBuilder::new(TransportReliability::Unreliable(RttConfig::default()))
        .with_mechanism("user", "pass", CredentialMechanism::LongTerm)
        .build()
        .unwrap()
}

fn run(realm: &str, nonce: &str) {
    let mut c = lt_client();
    let t0 = Instant::now();
    let tid = c
        .send_request(BINDING, StunAttributes::default(), vec![0; 4096], t0)
        .expect("first request");
    let _ = c.events();

    // BINDING error response (0x0111), ERROR-CODE 401, REALM, NONCE
    let challenge = raw_msg(
        0x0111,
        &tid,
        &[
            raw_attr(0x0009, &[0, 0, 4, 1, b'x']),
            raw_attr(0x0014, realm.as_bytes()),
            raw_attr(0x0015, nonce.as_bytes()),
        ],
    );
    let res = c.on_buffer_recv(&challenge, t0 + Duration::from_millis(10));
    let events = c.events();
    let told_to_retry = events
        .iter()
        .any(|e| matches!(e, StunClientEvent::Retry(id) if *id == tid));
    println!("on_buffer_recv -> {:?}, told_to_retry = {}", res, told_to_retry);

    // Whatever the client decided about that buffer (accept the challenge, or
    // reject the buffer), it must remain usable: a new request can be sent.
    let res = c.send_request(
        BINDING,
        StunAttributes::default(),
        vec![0; 4096],
        t0 + Duration::from_millis(20),
    );
    assert!(
        res.is_ok(),
        "client can no longer send any request after one received buffer: {:?}",
        res
    );

    if told_to_retry {
        // ... and, having told the application to retry, the retried request
        // must carry the REALM and the most recent NONCE from the server.
        let events = c.events();
        let packet = events
            .iter()
            .find_map(|e| match e {
                StunClientEvent::OutputPacket(p) => Some(p.as_ref().to_vec()),
                _ => None,
            })
            .expect("output packet");
        let (msg, _) = MessageDecoderBuilder::default()
            .build()
            .decode(&packet)
            .expect("decodable request");
        let n = msg.get::<Nonce>().expect("NONCE").expect_nonce();
        assert_eq!(n.as_str(), nonce);
        let r = msg.get::<Realm>().expect("REALM").expect_realm();
        assert_eq!(r.as_str(), realm);
    }
}

#[test]
fn challenge_with_600_byte_nonce() {
    run("realm", &"n".repeat(600));
}

#[test]
fn challenge_with_600_byte_realm() {
    run(&"r".repeat(600), "nonce");
}

#[test]
fn control_challenge_with_509_byte_nonce_is_fine() {
    run("realm", &"n".repeat(509));
}
