// place at: stun-agent/tests/f1_zero_rtt_sample.rs
//
// C15: a round-trip sample of exactly zero is stored as SRTT = 0, which the estimator
// also uses as its "no sample yet" marker. The next sample is therefore processed with
// the first-sample formulas (SRTT=R, RTTVAR=R/2) instead of the RFC 6298 later-sample
// formulas, and the RTO handed to the next request is wrong.
use std::time::{Duration, Instant};
use stun_agent::{
    RttConfig, StunAttributes, StunClient, StunClientEvent, StunClienteBuilder,
    TransportReliability,
};
use stun_rs::methods::BINDING;
use stun_rs::MessageClass::SuccessResponse;
use stun_rs::{MessageEncoderBuilder, StunMessageBuilder, TransactionId};

fn buf() -> Vec<u8> {
    vec![0; 1024]
}

fn response(id: TransactionId) -> Vec<u8> {
    let msg = StunMessageBuilder::new(BINDING, SuccessResponse)
        .with_transaction_id(id)
        .build();
    let mut b = buf();
    let n = MessageEncoderBuilder::default()
        .build()
        .encode(&mut b, &msg)
        .unwrap();
    b.truncate(n);
    b
}

/// Sends a request and returns (id, initial retransmission interval)
fn send(client: &mut StunClient, at: Instant) -> (TransactionId, Duration) {
    let id = client
        .send_request(BINDING, StunAttributes::default(), buf(), at)
        .unwrap();
    let mut d = None;
    for e in client.events() {
        if let StunClientEvent::RestransmissionTimeOut((tid, dur)) = e {
            assert_eq!(tid, id);
            d = Some(dur);
        }
    }
    (id, d.expect("no time-out notification"))
}

#[test]
fn rto_after_a_zero_sample_follows_rfc6298() {
    // defaults: RTO 500 ms, granularity 1 ms, Rc 7, Rm 16
    let mut client =
        StunClienteBuilder::new(TransportReliability::Unreliable(RttConfig::default()))
            .build()
            .unwrap();
    let t0 = Instant::now();

    // request 1: answered at the very instant it was sent => first sample R = 0
    let (id, d) = send(&mut client, t0);
    assert_eq!(d, Duration::from_millis(500));
    client.on_buffer_recv(&response(id), t0).unwrap();
    client.events();

    // request 2: SRTT = 0, RTTVAR = 0, RTO = 0 + max(G, 0) = 1 ms   (correct)
    let t1 = t0 + Duration::from_secs(1);
    let (id, d) = send(&mut client, t1);
    assert_eq!(d, Duration::from_millis(1));
    // answered after 800 us, i.e. before any retransmission => second sample R' = 800 us
    client
        .on_buffer_recv(&response(id), t1 + Duration::from_micros(800))
        .unwrap();
    client.events();

    // request 3: RFC 6298 later-sample update
    //   RTTVAR = 3/4 * 0 + 1/4 * |0 - 800us| = 200 us
    //   SRTT   = 7/8 * 0 + 1/8 * 800us      = 100 us
    //   RTO    = 100 us + max(1 ms, 4 * 200 us) = 1.1 ms
    // The library yields 800us + max(1ms, 4*400us) = 2.4 ms (first-sample formulas again).
    let t2 = t1 + Duration::from_secs(1);
    let (_id, d) = send(&mut client, t2);
    let expected = Duration::from_micros(1100);
    let diff = if d > expected { d - expected } else { expected - d };
    assert!(
        diff < Duration::from_micros(1),
        "initial retransmission interval is {:?}, RFC 6298 gives {:?}",
        d,
        expected
    );
}
