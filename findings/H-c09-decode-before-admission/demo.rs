// place at: stun-rs/tests/h3_c09_ignored_attrs_are_still_decoded.rs
//
// C09: "Attributes that are not admitted are neither returned nor validated, so appending further
// well-formed attributes after the FINGERPRINT (or non-admissible ones after an integrity
// attribute) of a valid message never changes what is decoded nor makes validation fail."
//
// MessageDecoder::decode runs the per-type value decoder on EVERY wire attribute before it asks
// `ignore_attribute` whether the attribute is admitted.  A non-admitted attribute whose value the
// library's value decoder refuses therefore turns a perfectly valid (and authenticated) message
// into a decode error instead of being ignored.
use stun_rs::attributes::stun::{Fingerprint, MessageIntegrity, Nonce, Software, UserName};
use stun_rs::methods::BINDING;
use stun_rs::{
    DecoderContextBuilder, HMACKey, MessageClass, MessageDecoder, MessageDecoderBuilder,
    MessageEncoderBuilder, StunMessageBuilder,
};

fn base_message(key: &HMACKey, with_fingerprint: bool) -> Vec<u8> {
    let mut b = StunMessageBuilder::new(BINDING, MessageClass::SuccessResponse)
        .with_attribute(Software::new("abc").unwrap())
        .with_attribute(UserName::new("user").unwrap())
        .with_attribute(MessageIntegrity::new(key.clone()));
    if with_fingerprint {
        b = b.with_attribute(Fingerprint::default());
    }
    let mut buf = vec![0u8; 512];
    let n = MessageEncoderBuilder::default()
        .build()
        .encode(&mut buf, &b.build())
        .unwrap();
    buf.truncate(n);
    buf
}

/// Appends one TLV (with zero padding) and fixes the header length.
fn append_attr(base: &[u8], attr_type: u16, value: &[u8]) -> Vec<u8> {
    let mut out = base.to_vec();
    out.extend_from_slice(&attr_type.to_be_bytes());
    out.extend_from_slice(&(value.len() as u16).to_be_bytes());
    out.extend_from_slice(value);
    while out.len() % 4 != 0 {
        out.push(0);
    }
    let len = (out.len() - 20) as u16;
    out[2..4].copy_from_slice(&len.to_be_bytes());
    out
}

fn decoders(key: &HMACKey) -> Vec<(&'static str, MessageDecoder)> {
    vec![
        ("default decoder", MessageDecoder::default()),
        (
            "validating decoder",
            MessageDecoderBuilder::default()
                .with_context(
                    DecoderContextBuilder::default()
                        .with_key(key.clone())
                        .with_validation()
                        .build(),
                )
                .build(),
        ),
    ]
}

fn check(with_fingerprint: bool, name: &str, attr_type: u16, value: &[u8]) -> Vec<String> {
    let key = HMACKey::new_short_term("pass").unwrap();
    let base = base_message(&key, with_fingerprint);
    let extended = append_attr(&base, attr_type, value);
    let mut failures = vec![];
    for (dname, d) in decoders(&key) {
        let (m0, s0) = d.decode(&base).expect("the valid message must decode");
        assert_eq!(s0, base.len());
        match d.decode(&extended) {
            Ok((m1, s1)) => {
                assert_eq!(s1, extended.len());
                assert_eq!(
                    format!("{:?}", m0.attributes()),
                    format!("{:?}", m1.attributes()),
                    "what is decoded changed"
                );
            }
            Err(e) => failures.push(format!(
                "[{dname}, base ends with {}] appended {name}: {e}",
                if with_fingerprint { "FINGERPRINT" } else { "MESSAGE-INTEGRITY" }
            )),
        }
    }
    failures
}

#[test]
fn non_admitted_trailing_attributes_are_ignored() {
    let mut failures = vec![];
    for with_fp in [true, false] {
        // sanity: an ordinary trailing attribute is ignored as promised (passes)
        failures.extend(check(with_fp, "SOFTWARE(\"xyz\")", 0x8022, b"xyz"));

        // RFC 8489 14.9: REALM is a UTF-8 quoted-string; qdtext includes UTF8-NONASCII.
        failures.extend(check(with_fp, "REALM(\"caf\u{e9}\")", 0x0014, "caf\u{e9}".as_bytes()));

        // A NONCE value produced by the library's own constructor (and thus by its encoder):
        // Nonce::new("\"abc\\ \"") is accepted and stores `abc\`, which Nonce's decoder refuses.
        let nonce = Nonce::new("\"abc\\ \"").unwrap();
        failures.extend(check(with_fp, "NONCE built by Nonce::new", 0x0015, nonce.as_str().as_bytes()));

        // RFC 8489 14.11/14.12: algorithm parameters are padded to a 4-byte boundary.
        failures.extend(check(
            with_fp,
            "PASSWORD-ALGORITHMS{alg 3, 1 parameter byte + 3 padding}",
            0x8002,
            &[0x00, 0x03, 0x00, 0x01, 0x55, 0x00, 0x00, 0x00],
        ));
    }
    // RFC 8489 14.6: MESSAGE-INTEGRITY-SHA256 may be truncated to 16..32 bytes (multiple of 4).
    // After FINGERPRINT it is not admitted, yet it makes decoding fail.
    failures.extend(check(true, "MESSAGE-INTEGRITY-SHA256 truncated to 16 bytes", 0x001C, &[0xAA; 16]));

    assert!(
        failures.is_empty(),
        "appending a non-admitted attribute broke decoding of a valid message:\n{}",
        failures.join("\n")
    );
}
