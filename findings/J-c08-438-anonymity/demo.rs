// place at: stun-agent/tests/h2_f3_stale_nonce_ignores_anonymity_bit.rs
//
// After a 438 (Stale Nonce) reply the long-term client switches to the new
// NONCE but never looks at that nonce's "nonce cookie": if the new nonce asks
// for user-name anonymity the client keeps sending USERNAME in clear (and, the
// other way round, keeps sending USERHASH when the new nonce no longer asks
// for it). The choice made at the last 401 is frozen until the next 401.
use enumflags2::{make_bitflags, BitFlags};
use std::time::{Duration, Instant};
use stun_agent::{
    CredentialMechanism, RttConfig, StunAttributes, StunClient, StunClientEvent,
    StunClienteBuilder, TransportReliability,
};
use stun_rs::attributes::stun::nonce_cookie::StunSecurityFeatures;
use stun_rs::attributes::stun::{
    ErrorCode, MessageIntegrity, Nonce, Realm, UserHash, UserName,
};
use stun_rs::methods::BINDING;
use stun_rs::{
    Algorithm, AlgorithmId, HMACKey, MessageClass, MessageDecoderBuilder, MessageEncoderBuilder,
    StunAttribute, StunMessage, StunMessageBuilder, TransactionId,
};

const USER: &str = "user";
const REALM: &str = "realm";
const PASSWORD: &str = "pass";

fn buf() -> Vec<u8> {
    vec![0; 2048]
}

fn encode(tid: TransactionId, class: MessageClass, attrs: Vec<StunAttribute>) -> Vec<u8> {
    let mut b = StunMessageBuilder::new(BINDING, class).with_transaction_id(tid);
    for a in attrs {
        b = b.with_attribute(a);
    }
    let msg = b.build();
    let mut out = buf();
    let n = MessageEncoderBuilder::default()
        .build()
        .encode(&mut out, &msg)
        .expect("encode");
    out.truncate(n);
    out
}

fn decode_plain(bytes: &[u8]) -> StunMessage {
    MessageDecoderBuilder::default()
        .build()
        .decode(bytes)
        .expect("decode")
        .0
}

fn out_packet(events: &[StunClientEvent]) -> Vec<u8> {
    events
        .iter()
        .find_map(|e| match e {
            StunClientEvent::OutputPacket(p) => Some(p.as_ref().to_vec()),
            _ => None,
        })
        .expect("output packet")
}

fn err(code: u16) -> StunAttribute {
    ErrorCode::from(stun_rs::ErrorCode::new(code, "x").unwrap()).into()
}

fn nonce(value: &str, anonymity: bool) -> Nonce {
    if anonymity {
        let flags: BitFlags<StunSecurityFeatures> =
            make_bitflags!(StunSecurityFeatures::{UserNameAnonymity});
        Nonce::new_nonce_cookie(value, Some(flags)).unwrap()
    } else {
        // a nonce cookie with no feature bit set
        Nonce::new_nonce_cookie(value, None).unwrap()
    }
}

/// 401 (first nonce) -> retry -> authenticated success -> subsequent request
/// -> authenticated 438 (second nonce) -> retry. Returns that last request.
fn run(first_anonymity: bool, second_anonymity: bool) -> StunMessage {
    let mut c: StunClient =
        StunClienteBuilder::new(TransportReliability::Unreliable(RttConfig::default()))
            .with_mechanism(USER, PASSWORD, CredentialMechanism::LongTerm)
            .build()
            .unwrap();
    let key = HMACKey::new_long_term(USER, REALM, PASSWORD, Algorithm::from(AlgorithmId::MD5))
        .unwrap();
    let t0 = Instant::now();
    let ms = |n: u64| t0 + Duration::from_millis(n);

    // first request, 401 challenge
    let tid = c
        .send_request(BINDING, StunAttributes::default(), buf(), ms(0))
        .unwrap();
    let _ = c.events();
    let resp = encode(
        tid,
        MessageClass::ErrorResponse,
        vec![
            err(401),
            Realm::new(REALM).unwrap().into(),
            nonce("n1", first_anonymity).into(),
        ],
    );
    c.on_buffer_recv(&resp, ms(10)).expect("401 accepted");
    assert!(matches!(c.events()[..], [StunClientEvent::Retry(_)]));

    // retried request, answered with an authenticated success response
    let tid = c
        .send_request(BINDING, StunAttributes::default(), buf(), ms(20))
        .unwrap();
    let _ = c.events();
    let resp = encode(
        tid,
        MessageClass::SuccessResponse,
        vec![MessageIntegrity::new(key.clone()).into()],
    );
    c.on_buffer_recv(&resp, ms(30)).expect("success accepted");
    let _ = c.events();

    // subsequent request: sanity check of the USERNAME/USERHASH choice
    let tid = c
        .send_request(BINDING, StunAttributes::default(), buf(), ms(40))
        .unwrap();
    let m = decode_plain(&out_packet(&c.events()));
    assert_eq!(m.get::<UserHash>().is_some(), first_anonymity);
    assert_eq!(m.get::<UserName>().is_some(), !first_anonymity);

    // the server's nonce went stale: authenticated 438 with a new nonce
    let resp = encode(
        tid,
        MessageClass::ErrorResponse,
        vec![
            err(438),
            Realm::new(REALM).unwrap().into(),
            nonce("n2", second_anonymity).into(),
            MessageIntegrity::new(key).into(),
        ],
    );
    c.on_buffer_recv(&resp, ms(50)).expect("438 accepted");
    assert!(matches!(c.events()[..], [StunClientEvent::Retry(_)]));

    let _ = c
        .send_request(BINDING, StunAttributes::default(), buf(), ms(60))
        .unwrap();
    let m = decode_plain(&out_packet(&c.events()));
    // it did switch to the most recent nonce ...
    let n = m.get::<Nonce>().expect("NONCE").expect_nonce();
    assert_eq!(n, &nonce("n2", second_anonymity));
    m
}

#[test]
fn new_nonce_asks_for_anonymity() {
    let m = run(false, true);
    assert!(
        m.get::<UserName>().is_none(),
        "USERNAME sent in clear although the most recent nonce cookie asks for anonymity"
    );
    let sent = m
        .get::<UserHash>()
        .expect("USERHASH expected: the most recent nonce cookie asks for anonymity")
        .expect_user_hash();
    assert_eq!(sent.hash(), UserHash::new(USER, REALM).unwrap().hash());
}

#[test]
fn new_nonce_no_longer_asks_for_anonymity() {
    let m = run(true, false);
    assert!(
        m.get::<UserHash>().is_none(),
        "USERHASH sent although the most recent nonce cookie does not ask for anonymity"
    );
    assert!(m.get::<UserName>().is_some());
}

#[test]
fn control_unchanged_feature_bits() {
    let m = run(true, true);
    assert!(m.get::<UserHash>().is_some() && m.get::<UserName>().is_none());
    let m = run(false, false);
    assert!(m.get::<UserHash>().is_none() && m.get::<UserName>().is_some());
}
