// place at: stun-agent/tests/h6_f1_rejected_438_clears_marker.rs
//
// C17: a buffer that the client REJECTS must leave everything as it was.  A 438
// (Stale Nonce) whose MESSAGE-INTEGRITY verifies but whose NONCE is too long to
// be echoed (510..=763 bytes) is rejected with `Discarded` and no events, yet it
// silently removes the protection-violated marker of the transaction: the final
// failure of that request changes from ProtectionViolated to TimedOut.
use std::time::{Duration, Instant};
use stun_agent::{
    CredentialMechanism, RttConfig, StunAgentError, StunAttributes, StunClient, StunClientEvent,
    StunClienteBuilder, StunTransactionError, TransportReliability,
};
use stun_rs::attributes::stun::{ErrorCode, MessageIntegrity, Nonce, Realm};
use stun_rs::methods::BINDING;
use stun_rs::{
    Algorithm, AlgorithmId, HMACKey, MessageClass, MessageEncoderBuilder, StunAttribute,
    StunMessageBuilder, TransactionId,
};

const USER: &str = "user";
const PASS: &str = "pass";
const REALM: &str = "r1";

fn lt_key(realm: &str) -> HMACKey {
    HMACKey::new_long_term(USER, realm, PASS, Algorithm::from(AlgorithmId::MD5)).unwrap()
}

fn encode(tid: TransactionId, class: MessageClass, attrs: Vec<StunAttribute>) -> Vec<u8> {
    let mut b = StunMessageBuilder::new(BINDING, class).with_transaction_id(tid);
    for a in attrs {
        b = b.with_attribute(a);
    }
    let msg = b.build();
    let mut buf = vec![0u8; 2048];
    let n = MessageEncoderBuilder::default()
        .build()
        .encode(&mut buf, &msg)
        .unwrap();
    buf.truncate(n);
    buf
}

fn send(c: &mut StunClient, now: Instant) -> TransactionId {
    let tid = c
        .send_request(BINDING, StunAttributes::default(), vec![0; 2048], now)
        .unwrap();
    c.events();
    tid
}

// ---- minimal SHA-1 / HMAC-SHA1: the library can not ENCODE a NONCE longer than
// 509 bytes (it only decodes them), so the hostile-but-authentic 438 is built by hand
fn sha1(data: &[u8]) -> [u8; 20] {
    let mut h: [u32; 5] = [0x67452301, 0xEFCDAB89, 0x98BADCFE, 0x10325476, 0xC3D2E1F0];
    let mut msg = data.to_vec();
    let bit_len = (data.len() as u64) * 8;
    msg.push(0x80);
    while msg.len() % 64 != 56 {
        msg.push(0);
    }
    msg.extend_from_slice(&bit_len.to_be_bytes());
    for chunk in msg.chunks(64) {
        let mut w = [0u32; 80];
        for i in 0..16 {
            w[i] = u32::from_be_bytes([
                chunk[4 * i],
                chunk[4 * i + 1],
                chunk[4 * i + 2],
                chunk[4 * i + 3],
            ]);
        }
        for i in 16..80 {
            w[i] = (w[i - 3] ^ w[i - 8] ^ w[i - 14] ^ w[i - 16]).rotate_left(1);
        }
        let (mut a, mut b, mut c, mut d, mut e) = (h[0], h[1], h[2], h[3], h[4]);
        for (i, wi) in w.iter().enumerate() {
            let (f, k) = match i {
                0..=19 => ((b & c) | (!b & d), 0x5A827999u32),
                20..=39 => (b ^ c ^ d, 0x6ED9EBA1),
                40..=59 => ((b & c) | (b & d) | (c & d), 0x8F1BBCDC),
                _ => (b ^ c ^ d, 0xCA62C1D6),
            };
            let t = a
                .rotate_left(5)
                .wrapping_add(f)
                .wrapping_add(e)
                .wrapping_add(k)
                .wrapping_add(*wi);
            e = d;
            d = c;
            c = b.rotate_left(30);
            b = a;
            a = t;
        }
        h[0] = h[0].wrapping_add(a);
        h[1] = h[1].wrapping_add(b);
        h[2] = h[2].wrapping_add(c);
        h[3] = h[3].wrapping_add(d);
        h[4] = h[4].wrapping_add(e);
    }
    let mut out = [0u8; 20];
    for i in 0..5 {
        out[4 * i..4 * i + 4].copy_from_slice(&h[i].to_be_bytes());
    }
    out
}

fn hmac_sha1(key: &[u8], data: &[u8]) -> [u8; 20] {
    let mut k = [0u8; 64];
    if key.len() > 64 {
        k[..20].copy_from_slice(&sha1(key));
    } else {
        k[..key.len()].copy_from_slice(key);
    }
    let mut inner: Vec<u8> = k.iter().map(|b| b ^ 0x36).collect();
    inner.extend_from_slice(data);
    let ih = sha1(&inner);
    let mut outer: Vec<u8> = k.iter().map(|b| b ^ 0x5c).collect();
    outer.extend_from_slice(&ih);
    sha1(&outer)
}

/// BINDING error response 438 with a NONCE of `nonce_len` bytes ('a' repeated)
/// followed by a MESSAGE-INTEGRITY that verifies under `key`
fn raw_438(tid: &TransactionId, nonce_len: usize, key: &HMACKey) -> Vec<u8> {
    assert_eq!(nonce_len % 4, 0);
    let mut m = vec![0x01, 0x11, 0, 0, 0x21, 0x12, 0xA4, 0x42];
    m.extend_from_slice(tid.as_bytes());
    // ERROR-CODE 438, empty reason
    m.extend_from_slice(&[0x00, 0x09, 0x00, 0x04, 0x00, 0x00, 0x04, 38]);
    // NONCE
    m.extend_from_slice(&[0x00, 0x15]);
    m.extend_from_slice(&(nonce_len as u16).to_be_bytes());
    m.extend(std::iter::repeat(b'a').take(nonce_len));
    // MESSAGE-INTEGRITY: length field covers the attribute itself
    let len = (m.len() - 20 + 24) as u16;
    m[2..4].copy_from_slice(&len.to_be_bytes());
    let mac = hmac_sha1(key.as_bytes(), &m);
    m.extend_from_slice(&[0x00, 0x08, 0x00, 0x14]);
    m.extend_from_slice(&mac);
    m
}

/// Long-term client over UDP that has completed challenge + authenticated
/// transaction (realm "r1", nonce "n1", MESSAGE-INTEGRITY / MD5 key)
fn authenticated_client(t0: Instant) -> StunClient {
    let mut c = StunClienteBuilder::new(TransportReliability::Unreliable(RttConfig::default()))
        .with_mechanism(USER, PASS, CredentialMechanism::LongTerm)
        .build()
        .unwrap();
    let a = send(&mut c, t0);
    let challenge = encode(
        a,
        MessageClass::ErrorResponse,
        vec![
            ErrorCode::from(stun_rs::ErrorCode::new(401, "Unauthenticated").unwrap()).into(),
            Realm::new(REALM).unwrap().into(),
            Nonce::new("n1").unwrap().into(),
        ],
    );
    c.on_buffer_recv(&challenge, t0).unwrap();
    assert!(matches!(c.events()[..], [StunClientEvent::Retry(_)]));
    let a2 = send(&mut c, t0);
    let ok = encode(
        a2,
        MessageClass::SuccessResponse,
        vec![MessageIntegrity::new(lt_key(REALM)).into()],
    );
    c.on_buffer_recv(&ok, t0).unwrap();
    assert!(matches!(
        c.events()[..],
        [StunClientEvent::StunMessageReceived(_)]
    ));
    c
}

/// Fires the timer every 500 ms and returns the final failure of `tid`
fn final_failure(c: &mut StunClient, t0: Instant, tid: TransactionId) -> StunTransactionError {
    let mut now = t0;
    for _ in 0..200 {
        now += Duration::from_millis(500);
        c.on_timeout(now);
        for e in c.events() {
            if let StunClientEvent::TransactionFailed((id, error)) = e {
                assert_eq!(id, tid);
                return error;
            }
        }
    }
    panic!("transaction never failed");
}

/// history common to both runs: request B is sent, a response for B with a wrong
/// MAC arrives (ignored on UDP, B is marked "protection violated on time-out")
fn history(rejected_438: bool) -> StunTransactionError {
    let t0 = Instant::now();
    let mut c = authenticated_client(t0);
    let b = send(&mut c, t0);

    let forged = encode(
        b,
        MessageClass::SuccessResponse,
        vec![MessageIntegrity::new(lt_key("some-other-realm")).into()],
    );
    assert_eq!(
        c.on_buffer_recv(&forged, t0 + Duration::from_millis(5)),
        Err(StunAgentError::Discarded)
    );
    assert!(c.events().is_empty());

    if rejected_438 {
        // authentic 438 (MAC verifies under the session key) whose NONCE has 600
        // bytes: it decodes (limit 763) but can not be echoed (limit 509).
        let good = raw_438(&b, 600, &lt_key(REALM));
        // The client REJECTS this buffer: error, no events, B stays outstanding
        assert_eq!(
            c.on_buffer_recv(&good, t0 + Duration::from_millis(6)),
            Err(StunAgentError::Discarded)
        );
        assert!(c.events().is_empty());
    }
    final_failure(&mut c, t0, b)
}

#[test]
fn hand_made_438_is_authentic() {
    // The helper produces MACs the library accepts: a 438 of ordinary size built
    // the same way is honoured (Retry), the same bytes with one MAC bit flipped are not.
    let t0 = Instant::now();
    let mut c = authenticated_client(t0);
    let b = send(&mut c, t0);
    let good = raw_438(&b, 16, &lt_key(REALM));
    let mut bad = good.clone();
    let n = bad.len();
    bad[n - 1] ^= 1;
    assert_eq!(c.on_buffer_recv(&bad, t0), Err(StunAgentError::Discarded));
    assert_eq!(c.on_buffer_recv(&good, t0), Ok(()));
    assert!(matches!(c.events()[..], [StunClientEvent::Retry(id)] if id == b));
}

#[test]
fn rejected_438_must_not_change_the_final_outcome() {
    // Without the extra buffer the request ends as ProtectionViolated ...
    assert_eq!(history(false), StunTransactionError::ProtectionViolated);
    // ... and a buffer that the client rejected can not have changed that (C17)
    assert_eq!(
        history(true),
        StunTransactionError::ProtectionViolated,
        "a rejected buffer removed the protection-violated marker of the transaction"
    );
}
