#![allow(dead_code)]
mod crypto;
mod ledger;
mod libtap;
mod oracle_cred;
mod oracle_rtt;
mod oracle_tap;
mod oracle_tx;
mod oracle_twin;
mod plan;
mod prng;
mod probes;
mod props;
mod runner;
mod server;
mod show;
mod stream;
mod util;
mod wire;
mod world;

use runner::CheckArgs;

fn usage() -> ! {
    eprintln!("usage: rustun-sim check <Cxx> quick|thorough [--runs N] [--seed S] [--threads T] [--wall S]");
    eprintln!("       rustun-sim replay <file> [--show] [--quiet]");
    eprintln!("       rustun-sim selftest [build|determinism]");
    std::process::exit(2);
}

fn selftests() -> Result<(), String> {
    crypto::selftest()?;
    wire::selftest()?;
    world::install_quiet_panic_hook();
    let _ = server::usable_extra_kinds();
    Ok(())
}

fn main() {
    let args: Vec<String> = std::env::args().collect();
    if args.len() < 2 {
        usage();
    }
    let verif_dir = std::env::var("VERIF_DIR").unwrap_or_else(|_| "/verif".to_string());
    let flag = |name: &str| -> Option<String> {
        args.iter().position(|a| a == name).and_then(|i| args.get(i + 1).cloned())
    };
    let has = |name: &str| args.iter().any(|a| a == name);
    match args[1].as_str() {
        "selftest" => {
            if let Err(e) = selftests() {
                eprintln!("HARNESS ERROR: {}", e);
                std::process::exit(2);
            }
            if args.get(2).map(|s| s.as_str()) == Some("determinism") {
                std::process::exit(selftest_determinism(&verif_dir));
            }
            println!("selftest ok");
        }
        "check" => {
            if args.len() < 4 {
                usage();
            }
            if let Err(e) = selftests() {
                eprintln!("HARNESS ERROR: {}", e);
                std::process::exit(2);
            }
            let Some(spec) = props::find(&args[2]) else {
                eprintln!("HARNESS ERROR: unknown property {}", args[2]);
                std::process::exit(2);
            };
            let tier = args[3].clone();
            if tier != "quick" && tier != "thorough" {
                usage();
            }
            let seed = flag("--seed")
                .or_else(|| std::env::var("VERIF_SEED").ok())
                .and_then(|s| s.parse().ok())
                .unwrap_or(1u64);
            let threads = flag("--threads")
                .and_then(|s| s.parse().ok())
                .unwrap_or_else(|| std::thread::available_parallelism().map(|n| n.get()).unwrap_or(4));
            let a = CheckArgs {
                tier: tier.clone(),
                seed,
                runs: flag("--runs").and_then(|s| s.parse().ok()),
                threads,
                wall_cap_s: flag("--wall").and_then(|s| s.parse().ok()).unwrap_or(if tier == "thorough" { 1500.0 } else { 240.0 }),
                verif_dir,
                quiet: has("--quiet"),
            };
            std::process::exit(runner::run_check(&spec, &a));
        }
        "replay" => {
            if args.len() < 3 {
                usage();
            }
            let text = match std::fs::read_to_string(&args[2]) {
                Ok(t) => t,
                Err(e) => {
                    eprintln!("HARNESS ERROR: cannot read {}: {}", args[2], e);
                    std::process::exit(2);
                }
            };
            let plan = match plan::Plan::from_text(&text) {
                Ok(p) => p,
                Err(e) => {
                    eprintln!("HARNESS ERROR: {}", e);
                    std::process::exit(2);
                }
            };
            let Some(spec) = props::find(&plan.prop) else {
                eprintln!("HARNESS ERROR: unknown property {}", plan.prop);
                std::process::exit(2);
            };
            std::process::exit(runner::run_replay(&spec, &plan, &args[2], has("--quiet"), has("--show")));
        }
        _ => usage(),
    }
}

/// Determinism self-test: many (property, run) pairs executed twice in-process and digests written
/// to stdout, so that two processes (and two worker counts) can be diffed by the wrapper script.
fn selftest_determinism(_verif_dir: &str) -> i32 {
    world::install_quiet_panic_hook();
    let n: u64 = std::env::var("DET_RUNS").ok().and_then(|s| s.parse().ok()).unwrap_or(2000);
    let seed: u64 = std::env::var("VERIF_SEED").ok().and_then(|s| s.parse().ok()).unwrap_or(1);
    let mut acc = util::Fnv::default();
    use std::hash::Hasher;
    for spec in props::all() {
        for run in 0..n {
            let (l, e) = runner::run_one(&spec, seed, run);
            let d = runner::ledger_digest(&l);
            let (l2, _) = runner::run_one(&spec, seed, run);
            if runner::ledger_digest(&l2) != d {
                eprintln!("HARNESS ERROR: nondeterminism in {} run {}", spec.id, run);
                return 2;
            }
            let l3 = runner::replay_entries(&spec, &e);
            if runner::ledger_digest(&l3) != d {
                eprintln!("HARNESS ERROR: replay divergence in {} run {}", spec.id, run);
                return 2;
            }
            acc.write_u64(d);
        }
        println!("determinism {} runs={} digest={:016x}", spec.id, n, acc.finish());
    }
    0
}
