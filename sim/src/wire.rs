//! Independent STUN codec written from RFC 8489 (header, TLV walk, padding,
//! the attribute subset the reference server needs, HMAC / CRC placement and
//! the section 14 admission rule). Shares no code with `stun-rs`.

use crate::crypto::{crc32, hmac_sha1, hmac_sha256, md5, sha256};

pub const MAGIC: [u8; 4] = [0x21, 0x12, 0xA4, 0x42];

pub const A_MAPPED_ADDRESS: u16 = 0x0001;
pub const A_USERNAME: u16 = 0x0006;
pub const A_MI: u16 = 0x0008;
pub const A_ERROR_CODE: u16 = 0x0009;
pub const A_UNKNOWN_ATTRIBUTES: u16 = 0x000A;
pub const A_REALM: u16 = 0x0014;
pub const A_NONCE: u16 = 0x0015;
pub const A_MI256: u16 = 0x001C;
pub const A_PASSWORD_ALGORITHM: u16 = 0x001D;
pub const A_USERHASH: u16 = 0x001E;
pub const A_XOR_MAPPED_ADDRESS: u16 = 0x0020;
pub const A_PRIORITY: u16 = 0x0024;
pub const A_PASSWORD_ALGORITHMS: u16 = 0x8002;
pub const A_SOFTWARE: u16 = 0x8022;
pub const A_FINGERPRINT: u16 = 0x8028;

pub const ALG_MD5: u16 = 0x0001;
pub const ALG_SHA256: u16 = 0x0002;

pub const C_REQUEST: u8 = 0;
pub const C_INDICATION: u8 = 1;
pub const C_SUCCESS: u8 = 2;
pub const C_ERROR: u8 = 3;

pub const FP_XOR: u32 = 0x5354_554e;
pub const NONCE_COOKIE_PREFIX: &str = "obMatJos2";

#[derive(Clone, Debug, PartialEq, Eq)]
pub struct RawAttr {
    pub typ: u16,
    /// offset of the attribute header inside the message
    pub off: usize,
    pub value: Vec<u8>,
}

impl RawAttr {
    /// offset just after value + padding
    pub fn end(&self) -> usize {
        self.off + 4 + pad4(self.value.len())
    }
}

#[derive(Clone, Debug, PartialEq, Eq)]
pub struct Parsed {
    pub class: u8,
    pub method: u16,
    pub len: usize,
    pub txid: [u8; 12],
    pub attrs: Vec<RawAttr>,
}

pub fn pad4(n: usize) -> usize {
    (n + 3) & !3
}

pub fn msg_type(class: u8, method: u16) -> u16 {
    let m = method & 0x0FFF;
    let c = class as u16 & 3;
    (m & 0x000F) | ((m & 0x0070) << 1) | ((m & 0x0F80) << 2) | ((c & 1) << 4) | ((c & 2) << 7)
}

pub fn split_type(t: u16) -> (u8, u16) {
    let class = (((t >> 4) & 1) | ((t >> 7) & 2)) as u8;
    let method = (t & 0x000F) | ((t >> 1) & 0x0070) | ((t >> 2) & 0x0F80);
    (class, method)
}

/// Parses the message at the start of `b` (extra trailing bytes are allowed and ignored).
pub fn parse(b: &[u8]) -> Result<Parsed, &'static str> {
    if b.len() < 20 {
        return Err("short header");
    }
    let t = u16::from_be_bytes([b[0], b[1]]);
    if t & 0xC000 != 0 {
        return Err("top bits");
    }
    if b[4..8] != MAGIC {
        return Err("cookie");
    }
    let len = u16::from_be_bytes([b[2], b[3]]) as usize;
    if b.len() < 20 + len {
        return Err("truncated");
    }
    let (class, method) = split_type(t);
    let mut txid = [0u8; 12];
    txid.copy_from_slice(&b[8..20]);
    let mut attrs = Vec::new();
    let mut pos = 20;
    let end = 20 + len;
    while pos < end {
        if end - pos < 4 {
            return Err("attr header");
        }
        let typ = u16::from_be_bytes([b[pos], b[pos + 1]]);
        let alen = u16::from_be_bytes([b[pos + 2], b[pos + 3]]) as usize;
        if pos + 4 + alen > end {
            return Err("attr value");
        }
        if pos + 4 + pad4(alen) > end {
            return Err("attr padding");
        }
        attrs.push(RawAttr {
            typ,
            off: pos,
            value: b[pos + 4..pos + 4 + alen].to_vec(),
        });
        pos += 4 + pad4(alen);
    }
    Ok(Parsed {
        class,
        method,
        len,
        txid,
        attrs,
    })
}

impl Parsed {
    pub fn total(&self) -> usize {
        20 + self.len
    }
    pub fn find(&self, typ: u16) -> Option<&RawAttr> {
        self.attrs.iter().find(|a| a.typ == typ)
    }
    pub fn find_idx(&self, typ: u16) -> Option<usize> {
        self.attrs.iter().position(|a| a.typ == typ)
    }
    pub fn count(&self, typ: u16) -> usize {
        self.attrs.iter().filter(|a| a.typ == typ).count()
    }
    pub fn types(&self) -> Vec<u16> {
        self.attrs.iter().map(|a| a.typ).collect()
    }
    pub fn error_code(&self) -> Option<u16> {
        let a = self.find(A_ERROR_CODE)?;
        if a.value.len() < 4 {
            return None;
        }
        Some((a.value[2] & 7) as u16 * 100 + a.value[3] as u16)
    }
    pub fn string(&self, typ: u16) -> Option<String> {
        let a = self.find(typ)?;
        String::from_utf8(a.value.clone()).ok()
    }
}

/// RFC 8489 section 14: which wire attributes a receiver must take into account.
/// Returns one flag per attribute (true = admitted).
pub fn admitted(types: &[u16]) -> Vec<bool> {
    let (mut mi, mut sha, mut fp) = (false, false, false);
    let mut out = Vec::with_capacity(types.len());
    for &t in types {
        let ok = match t {
            A_MI => {
                let ok = !mi && !sha && !fp;
                if ok {
                    mi = true;
                }
                ok
            }
            A_MI256 => {
                let ok = !sha && !fp;
                if ok {
                    sha = true;
                }
                ok
            }
            A_FINGERPRINT => {
                let ok = !fp;
                if ok {
                    fp = true;
                }
                ok
            }
            _ => !mi && !sha && !fp,
        };
        out.push(ok);
    }
    out
}

/// Text over which the MAC / CRC of the attribute at index `idx` is computed:
/// the message up to the attribute, with the header length covering the attribute.
pub fn covered_text(bytes: &[u8], p: &Parsed, idx: usize) -> Vec<u8> {
    let a = &p.attrs[idx];
    let mut text = bytes[..a.off].to_vec();
    let l = (a.off - 20 + 4 + pad4(a.value.len())) as u16;
    text[2..4].copy_from_slice(&l.to_be_bytes());
    text
}

#[derive(Clone, Copy, Debug, PartialEq, Eq)]
pub enum Verdict {
    Absent,
    Bad,
    Good,
}

/// Verifies the first *admitted* attribute of kind `typ` (MI or MI256) under `key`.
pub fn verify_integrity(bytes: &[u8], p: &Parsed, typ: u16, key: &[u8]) -> Verdict {
    let adm = admitted(&p.types());
    for (i, a) in p.attrs.iter().enumerate() {
        if a.typ == typ && adm[i] {
            let text = covered_text(bytes, p, i);
            let mac = if typ == A_MI {
                hmac_sha1(key, &text)
            } else {
                hmac_sha256(key, &text)
            };
            return if typ == A_MI {
                if a.value.len() == 20 && a.value == mac {
                    Verdict::Good
                } else {
                    Verdict::Bad
                }
            } else if a.value.len() == 32 && a.value == mac {
                // RFC 8489 allows truncated SHA-256 MACs (>= 16, multiple of 4); the
                // simulator's server only ever produces full-length ones.
                Verdict::Good
            } else if a.value.len() >= 16
                && a.value.len() < 32
                && a.value.len() % 4 == 0
                && a.value[..] == mac[..a.value.len()]
            {
                Verdict::Good
            } else {
                Verdict::Bad
            };
        }
    }
    Verdict::Absent
}

/// Verifies the first admitted FINGERPRINT.
pub fn verify_fingerprint(bytes: &[u8], p: &Parsed) -> Verdict {
    let adm = admitted(&p.types());
    for (i, a) in p.attrs.iter().enumerate() {
        if a.typ == A_FINGERPRINT && adm[i] {
            if a.value.len() != 4 {
                return Verdict::Bad;
            }
            let text = covered_text(bytes, p, i);
            let want = crc32(&text) ^ FP_XOR;
            return if a.value == want.to_be_bytes() {
                Verdict::Good
            } else {
                Verdict::Bad
            };
        }
    }
    Verdict::Absent
}

pub fn long_term_key(alg: u16, user: &str, realm: &str, password: &str) -> Vec<u8> {
    let s = format!("{}:{}:{}", user, realm, password);
    if alg == ALG_SHA256 {
        sha256(s.as_bytes()).to_vec()
    } else {
        md5(s.as_bytes()).to_vec()
    }
}

/// OpaqueString (RFC 8265) for the *generator's table of credential strings only*: non-ASCII spaces are
/// mapped to U+0020 and the two non-NFC sequences the table uses are composed. This is not a PRECIS
/// implementation; it is the a-priori known result for exactly the strings the simulator generates.
pub fn opaque_known(s: &str) -> String {
    s.replace('\u{a0}', " ")
        .replace('\u{2003}', " ")
        .replace("e\u{301}", "\u{e9}")
        .replace('\u{212b}', "\u{c5}")
}

pub fn user_hash(user: &str, realm: &str) -> Vec<u8> {
    sha256(format!("{}:{}", user, realm).as_bytes()).to_vec()
}

const B64: &[u8; 64] = b"ABCDEFGHIJKLMNOPQRSTUVWXYZabcdefghijklmnopqrstuvwxyz0123456789+/";

pub fn nonce_cookie(pwd_algs: bool, anonymity: bool, rest: &str) -> String {
    nonce_cookie_reserved(pwd_algs, anonymity, 0, rest)
}

/// Like `nonce_cookie`, with the 22 not yet assigned feature bits set to `reserved` (a client must ignore them).
pub fn nonce_cookie_reserved(pwd_algs: bool, anonymity: bool, reserved: u32, rest: &str) -> String {
    let b0: u8 = (if pwd_algs { 0x80 } else { 0 }) | (if anonymity { 0x40 } else { 0 });
    let v: u32 = ((b0 as u32) << 16) | (reserved & 0x3F_FFFF);
    let mut s = String::from(NONCE_COOKIE_PREFIX);
    for shift in [18, 12, 6, 0] {
        s.push(B64[((v >> shift) & 63) as usize] as char);
    }
    s.push_str(rest);
    s
}

/// (password-algorithms bit, anonymity bit) of a nonce, if it is a well-formed ASCII nonce cookie.
pub fn nonce_cookie_bits(nonce: &str) -> Option<(bool, bool)> {
    let b = nonce.as_bytes();
    if !nonce.starts_with(NONCE_COOKIE_PREFIX) || b.len() < 13 {
        return None;
    }
    let mut v: u32 = 0;
    for &c in &b[9..13] {
        let d = B64.iter().position(|&x| x == c)? as u32;
        v = (v << 6) | d;
    }
    Some((v & 0x80_0000 != 0, v & 0x40_0000 != 0))
}

/// Encodes a PASSWORD-ALGORITHMS value from (algorithm, parameters) pairs.
pub fn password_algorithms_value(algs: &[(u16, Vec<u8>)]) -> Vec<u8> {
    // Items are padded to a 32-bit boundary *between* items; the padding of the last item coincides with
    // the padding of the attribute itself (this is also what the library's own encoder produces and the
    // only form its decoder accepts; RFC 8489 14.11 leaves the point open).
    let mut v = Vec::new();
    for (i, (a, params)) in algs.iter().enumerate() {
        if i > 0 {
            while v.len() % 4 != 0 {
                v.push(0);
            }
        }
        v.extend_from_slice(&a.to_be_bytes());
        v.extend_from_slice(&(params.len() as u16).to_be_bytes());
        v.extend_from_slice(params);
    }
    v
}

/// Decodes a PASSWORD-ALGORITHMS / PASSWORD-ALGORITHM value into algorithm numbers.
pub fn password_algorithms_parse(v: &[u8]) -> Option<Vec<(u16, Vec<u8>)>> {
    let mut out = Vec::new();
    let mut pos = 0;
    while pos < v.len() {
        if v.len() - pos < 4 {
            return None;
        }
        let a = u16::from_be_bytes([v[pos], v[pos + 1]]);
        let l = u16::from_be_bytes([v[pos + 2], v[pos + 3]]) as usize;
        if pos + 4 + l > v.len() {
            return None;
        }
        out.push((a, v[pos + 4..pos + 4 + l].to_vec()));
        pos += 4 + l;
        // inner padding (absent, partial or complete after the last item)
        while pos % 4 != 0 && pos < v.len() {
            pos += 1;
        }
    }
    Some(out)
}

pub fn error_code_value(code: u16, reason: &str) -> Vec<u8> {
    let mut v = vec![0, 0, (code / 100) as u8, (code % 100) as u8];
    v.extend_from_slice(reason.as_bytes());
    v
}

pub fn xor_mapped_v4(port: u16, ip: [u8; 4]) -> Vec<u8> {
    let p = port ^ 0x2112;
    let mut v = vec![0, 1];
    v.extend_from_slice(&p.to_be_bytes());
    for i in 0..4 {
        v.push(ip[i] ^ MAGIC[i]);
    }
    v
}

/// Message builder (independent of stun-rs).
#[derive(Clone, Debug)]
pub struct Builder {
    pub buf: Vec<u8>,
    /// value of the padding bytes (RFC 8489: may be anything, receivers ignore it; it is covered by MAC and CRC)
    pub pad: u8,
}

impl Builder {
    pub fn new(class: u8, method: u16, txid: &[u8; 12]) -> Self {
        let mut buf = Vec::with_capacity(128);
        buf.extend_from_slice(&msg_type(class, method).to_be_bytes());
        buf.extend_from_slice(&[0, 0]);
        buf.extend_from_slice(&MAGIC);
        buf.extend_from_slice(txid);
        Builder { buf, pad: 0 }
    }

    fn set_len(&mut self) {
        let l = (self.buf.len() - 20) as u16;
        self.buf[2..4].copy_from_slice(&l.to_be_bytes());
    }

    pub fn attr(mut self, typ: u16, value: &[u8]) -> Self {
        self.push_attr(typ, value);
        self
    }

    pub fn push_attr(&mut self, typ: u16, value: &[u8]) {
        self.buf.extend_from_slice(&typ.to_be_bytes());
        self.buf.extend_from_slice(&(value.len() as u16).to_be_bytes());
        self.buf.extend_from_slice(value);
        while self.buf.len() % 4 != 0 {
            self.buf.push(self.pad);
        }
        self.set_len();
    }

    /// Appends MESSAGE-INTEGRITY computed under `key`.
    pub fn push_mi(&mut self, key: &[u8]) {
        let mut text = self.buf.clone();
        let l = (self.buf.len() - 20 + 24) as u16;
        text[2..4].copy_from_slice(&l.to_be_bytes());
        let mac = hmac_sha1(key, &text);
        self.push_attr(A_MI, &mac);
    }

    /// Appends MESSAGE-INTEGRITY-SHA256 computed under `key`.
    pub fn push_mi256(&mut self, key: &[u8]) {
        let mut text = self.buf.clone();
        let l = (self.buf.len() - 20 + 36) as u16;
        text[2..4].copy_from_slice(&l.to_be_bytes());
        let mac = hmac_sha256(key, &text);
        self.push_attr(A_MI256, &mac);
    }

    /// Appends FINGERPRINT.
    pub fn push_fingerprint(&mut self) {
        let mut text = self.buf.clone();
        let l = (self.buf.len() - 20 + 8) as u16;
        text[2..4].copy_from_slice(&l.to_be_bytes());
        let v = crc32(&text) ^ FP_XOR;
        self.push_attr(A_FINGERPRINT, &v.to_be_bytes());
    }

    pub fn finish(self) -> Vec<u8> {
        self.buf
    }
}

/// Self-test against the RFC 5769 vectors (sample request 2.1, IPv4 response 2.2,
/// long-term request 2.4).
pub fn selftest() -> Result<(), String> {
    // RFC 5769 2.2 sample IPv4 response (password "VOkJxbRl1RmTxUk/WvJxBt")
    let resp: [u8; 80] = [
        0x01, 0x01, 0x00, 0x3c, 0x21, 0x12, 0xa4, 0x42, 0xb7, 0xe7, 0xa7, 0x01, 0xbc, 0x34, 0xd6, 0x86,
        0xfa, 0x87, 0xdf, 0xae, 0x80, 0x22, 0x00, 0x0b, 0x74, 0x65, 0x73, 0x74, 0x20, 0x76, 0x65, 0x63,
        0x74, 0x6f, 0x72, 0x20, 0x00, 0x20, 0x00, 0x08, 0x00, 0x01, 0xa1, 0x47, 0xe1, 0x12, 0xa6, 0x43,
        0x00, 0x08, 0x00, 0x14, 0x2b, 0x91, 0xf5, 0x99, 0xfd, 0x9e, 0x90, 0xc3, 0x8c, 0x74, 0x89, 0xf9,
        0x2a, 0xf9, 0xba, 0x53, 0xf0, 0x6b, 0xe7, 0xd7, 0x80, 0x28, 0x00, 0x04, 0xc0, 0x7d, 0x4c, 0x96,
    ];
    let p = parse(&resp).map_err(|e| format!("wire selftest: parse 5769-2.2: {e}"))?;
    if p.class != C_SUCCESS || p.method != 1 || p.attrs.len() != 4 {
        return Err("wire selftest: 5769-2.2 structure".into());
    }
    let key = b"VOkJxbRl1RmTxUk/WvJxBt";
    if verify_integrity(&resp, &p, A_MI, key) != Verdict::Good {
        return Err("wire selftest: 5769-2.2 MI".into());
    }
    if verify_fingerprint(&resp, &p) != Verdict::Good {
        return Err("wire selftest: 5769-2.2 FINGERPRINT".into());
    }
    if p.find(A_XOR_MAPPED_ADDRESS).map(|a| a.value.clone()) != Some(xor_mapped_v4(32853, [192, 0, 2, 1])) {
        return Err("wire selftest: 5769-2.2 XOR-MAPPED-ADDRESS".into());
    }
    // rebuild it with the builder (padding of SOFTWARE in the RFC vector is 0x20, ours is 0:
    // so rebuild, then compare structure and verify MACs rather than bytes)
    let mut b = Builder::new(C_SUCCESS, 1, &p.txid);
    b.push_attr(A_SOFTWARE, b"test vector");
    b.push_attr(A_XOR_MAPPED_ADDRESS, &xor_mapped_v4(32853, [192, 0, 2, 1]));
    b.push_mi(key);
    b.push_fingerprint();
    let mine = b.finish();
    let p2 = parse(&mine).map_err(|e| format!("wire selftest: reparse: {e}"))?;
    if verify_integrity(&mine, &p2, A_MI, key) != Verdict::Good || verify_fingerprint(&mine, &p2) != Verdict::Good {
        return Err("wire selftest: builder output does not verify".into());
    }
    if mine.len() != resp.len() {
        return Err("wire selftest: builder length".into());
    }
    // RFC 5769 2.4 long-term: key = MD5("<U+30DE><U+30C8><U+30EA><U+30C3><U+30AF><U+30B9>:example.org:TheMatrIX")
    let req_lt: [u8; 116] = [
        0x00, 0x01, 0x00, 0x60, 0x21, 0x12, 0xa4, 0x42, 0x78, 0xad, 0x34, 0x33, 0xc6, 0xad, 0x72, 0xc0,
        0x29, 0xda, 0x41, 0x2e, 0x00, 0x06, 0x00, 0x12, 0xe3, 0x83, 0x9e, 0xe3, 0x83, 0x88, 0xe3, 0x83,
        0xaa, 0xe3, 0x83, 0x83, 0xe3, 0x82, 0xaf, 0xe3, 0x82, 0xb9, 0x00, 0x00, 0x00, 0x15, 0x00, 0x1c,
        0x66, 0x2f, 0x2f, 0x34, 0x39, 0x39, 0x6b, 0x39, 0x35, 0x34, 0x64, 0x36, 0x4f, 0x4c, 0x33, 0x34,
        0x6f, 0x4c, 0x39, 0x46, 0x53, 0x54, 0x76, 0x79, 0x36, 0x34, 0x73, 0x41, 0x00, 0x14, 0x00, 0x0b,
        0x65, 0x78, 0x61, 0x6d, 0x70, 0x6c, 0x65, 0x2e, 0x6f, 0x72, 0x67, 0x00, 0x00, 0x08, 0x00, 0x14,
        0xf6, 0x70, 0x24, 0x65, 0x6d, 0xd6, 0x4a, 0x3e, 0x02, 0xb8, 0xe0, 0x71, 0x2e, 0x85, 0xc9, 0xa2,
        0x8c, 0xa8, 0x96, 0x66,
    ];
    let p3 = parse(&req_lt).map_err(|e| format!("wire selftest: parse 5769-2.4: {e}"))?;
    let user = p3.string(A_USERNAME).ok_or("wire selftest: username")?;
    let key = long_term_key(ALG_MD5, &user, "example.org", "TheMatrIX");
    if verify_integrity(&req_lt, &p3, A_MI, &key) != Verdict::Good {
        return Err("wire selftest: 5769-2.4 long-term MI".into());
    }
    // message type interleaving
    for class in 0..4u8 {
        for method in [0u16, 1, 2, 0x00F, 0x010, 0x07F, 0x080, 0x0FFF, 0x0ABC] {
            let t = msg_type(class, method);
            if t & 0xC000 != 0 || split_type(t) != (class, method) {
                return Err("wire selftest: message type interleaving".into());
            }
        }
    }
    if msg_type(C_SUCCESS, 1) != 0x0101 || msg_type(C_ERROR, 1) != 0x0111 || msg_type(C_INDICATION, 1) != 0x0011 {
        return Err("wire selftest: message type constants".into());
    }
    // nonce cookie
    let n = nonce_cookie(true, false, "abc");
    if n != "obMatJos2gAAAabc" || nonce_cookie_bits(&n) != Some((true, false)) {
        return Err(format!("wire selftest: nonce cookie {n}"));
    }
    if nonce_cookie_bits(&nonce_cookie(false, true, "")) != Some((false, true)) {
        return Err("wire selftest: nonce cookie anonymity".into());
    }
    // admission automaton
    let adm = admitted(&[A_SOFTWARE, A_MI, A_SOFTWARE, A_MI256, A_MI, A_FINGERPRINT, A_FINGERPRINT, A_MI256]);
    if adm != [true, true, false, true, false, true, false, false] {
        return Err("wire selftest: admission".into());
    }
    Ok(())
}
