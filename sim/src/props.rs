//! Property registry: generation profile, run options, oracle and coverage signature per property.

use crate::ledger::*;
use crate::oracle_cred;
use crate::oracle_tx;
use crate::runner::{hist_sig, PropSpec};
use crate::util::hash_of;
use crate::world::{Profile, RunOpts, SEC};

const COMMON_ASSUMPTIONS: &[&str] = &[
    "time never goes backwards and events() is pulled after every call (documented caller obligations)",
    "credential strings come from a fixed table whose OpaqueString (RFC 8265) result is known a priori: the identity for user names and realms; passwords additionally contain U+00A0 / U+2003 (mapped to U+0020) and two non-NFC sequences (e + U+0301, U+212B) whose composition is hard-coded; PRECIS itself is not re-implemented",
    "the simulator's own reference codec/crypto (self-tested against RFC vectors at start-up) is trusted",
    "sampling, not proof: a clean batch is evidence for the explored plans only",
];

fn no_check(_: &Ledger, _: &[(String, String)], _: &PropSpec) -> Vec<Violation> {
    vec![]
}

fn sig_hist_all(l: &Ledger) -> Vec<u64> {
    vec![hist_sig(l)]
}

// ---- C03 -------------------------------------------------------------------------------------

fn sweep_entry(e: &[(String, String)]) -> Option<crate::plan::Kv> {
    e.iter().find(|(k, _)| k == "sweep").map(|(_, v)| crate::plan::parse_kv(v))
}

fn check_c03(l: &Ledger, e: &[(String, String)], s: &PropSpec) -> Vec<Violation> {
    crate::oracle_tap::check_c03(l, e, s)
}

fn sig_c03(l: &Ledger) -> Vec<u64> {
    crate::oracle_tap::c03_cases(l)
}

fn c03() -> PropSpec {
    let mut p = Profile::base("hostile");
    p.p_corrupt = 350;
    p.p_splice = 60;
    p.p_srv_hostile = 250;
    p.p_srv_more = 500;
    p.p_srv_lt = 250;
    p.p_srv_integ = 150;
    p.mech_w = [2, 2, 1, 1, 6];
    p.inj_w = [3, 2, 1, 2, 4, 2, 1, 1, 0, 2];
    p.n_inj = (0, 5);
    p.n_app = (1, 6);
    p.p_drop = 50;
    p.p_srv_silent = 30;
    p.p_retry_ignore = 30;
    p.p_swarm_off = 100;
    p.p_perfect = 0;
    PropSpec {
        id: "C03",
        tag: 3,
        level: "exploration",
        profile: p,
        opts: RunOpts { probe_late_responses: true, probe_capacity: true, ..Default::default() },
        check: check_c03,
        signature: sig_c03,
        rule: "a hostile/buggy peer and a mutating network against a client in the middle of real conversations: structure-aware faults on valid in-flight messages (bit/byte flips, truncation, extension, header/attribute/nested length edits, multi-byte UTF-8 and quoting characters injected into string attributes, spliced attributes), hostile server strings around the nonce-cookie offsets, random and STUN-like injected bytes; every call into the client is under catch_unwind, every hostile datagram is also decoded in all 16 decoder configurations (size and prefix relations), through get_input_text and through the stream reassembler in a seeded chunking; rejected hostile buffers are additionally removed in a twin run to show the client remained usable; distinct = distinct (credential-state tag, fault kind, library decode outcome, client outcome, outstanding requests); trivial (not counted) = bytes undecodable at the header",
        quick_runs: 200000,
        thorough_runs: 4000000,
        required_probes: &["unparseable_buffer_delivered", "rejected_buffer", "retry_after_401"],
        extra: Some(crate::oracle_tap::extra_c03),
        run: None,
        assumptions: COMMON_ASSUMPTIONS,
    }
}

// ---- C04 -------------------------------------------------------------------------------------

fn check_c04(l: &Ledger, e: &[(String, String)], _s: &PropSpec) -> Vec<Violation> {
    if let Some(kv) = sweep_entry(e) {
        return crate::oracle_tap::replay_sweep_bits(&kv);
    }
    // along the simulated conversations: real and reference verifier must agree on every datagram the
    // client accepted or rejected for authentication reasons (the C07 / C08 oracles), and what the client
    // itself builds must carry the RFC HMAC (C13 oracle) -- reported here under C04 keys
    let mut out = vec![];
    for v in oracle_cred::check_c13(l) {
        if v.key.contains("does-not-verify") {
            out.push(Violation { prop: "C04", key: v.key.replace("C13/", "C04/client-built-mac:"), step: v.step, detail: v.detail });
        }
    }
    // a delivery tampered by the client-side sweep (plan entry `override`) must not be delivered
    for st in &l.steps {
        if let Call::Recv { bytes, fault, .. } = &st.call {
            if fault.ends_with("(sweep)") {
                if let Ok(p) = crate::wire::parse(bytes) {
                    if st.events.iter().any(|e| matches!(e, Ev::Received(m) if m.class >= 2 && m.id == p.txid)) {
                        // which byte was flipped is in the plan entry
                        let pos = e.iter().find(|(k, _)| k == "override").map(|(_, v)| crate::plan::kv_u64(&crate::plan::parse_kv(v), "pos", 0)).unwrap_or(0) as usize;
                        // the region is computed on the untampered structure: flip back
                        let mut orig = bytes.clone();
                        if pos / 8 < orig.len() {
                            orig[pos / 8] ^= 1 << (pos % 8);
                        }
                        let region = crate::wire::parse(&orig).map(|po| crate::oracle_tap::region_name(&po, pos / 8)).unwrap_or("?");
                        out.push(Violation {
                            prop: "C04",
                            key: format!("C04/client-delivered-tampered-response(region={})", region),
                            step: st.idx,
                            detail: format!("step {}: a response tampered in flight (bit {}) was delivered", st.idx, pos),
                        });
                    }
                }
            }
        }
    }
    // misplaced or repeated integrity attributes must not slip through a validating decoder that keeps them
    if let crate::server::Mech::ShortTerm(_) = l.cfg.mech {
        let lk = crate::libtap::short_term_key(&l.cfg.password);
        let rk = l.cfg.pw().into_bytes();
        for st in &l.steps {
            if let Call::Recv { bytes, .. } = &st.call {
                if let Ok(p) = crate::wire::parse(bytes) {
                    if crate::wire::admitted(&p.types()).iter().any(|a| !*a) {
                        for (k, d) in crate::oracle_tap::tap_not_ignore_validation(bytes, lk.as_ref(), Some(&rk)) {
                            out.push(Violation { prop: "C04", key: format!("C04/{}", k), step: st.idx, detail: format!("step {}: {}", st.idx, d) });
                        }
                    }
                }
            }
        }
    }
    for v in oracle_cred::check_c07(l).into_iter().chain(oracle_cred::check_c08(l)) {
        if v.key.contains("unauthenticated") && v.key.contains("delivered") {
            out.push(Violation { prop: "C04", key: format!("C04/client-accepted:{}", v.key), step: v.step, detail: v.detail.clone() });
        }
        if v.key.contains("authenticated-") && v.key.contains("not-delivered") {
            out.push(Violation { prop: "C04", key: format!("C04/client-rejected:{}", v.key), step: v.step, detail: v.detail });
        }
    }
    out
}

fn sig_c04(l: &Ledger) -> Vec<u64> {
    // authenticated datagrams that crossed a corrupting channel
    let mut out = vec![];
    for st in &l.steps {
        if let Call::Recv { bytes, fault, .. } = &st.call {
            if let Some(s) = oracle_cred::see(bytes) {
                if (s.has_mi || s.has_sha) && !fault.is_empty() {
                    out.push(hash_of(&(s.p.types(), fault.clone(), matches!(st.result, CallResult::Ok), crate::world::mech_to_str(&l.cfg.mech))));
                }
            }
        }
    }
    out
}

fn c04() -> PropSpec {
    let mut p = Profile::base("corrupting-channel");
    p.mech_w = [0, 3, 1, 1, 4];
    p.p_corrupt = 250;
    p.p_splice = 80;
    p.p_srv_integ = 120;
    p.p_fp = 500;
    p.n_app = (1, 5);
    p.p_drop = 50;
    p.p_srv_silent = 30;
    PropSpec {
        id: "C04",
        tag: 4,
        level: "fault_enumeration",
        profile: p,
        opts: RunOpts::default(),
        check: check_c04,
        signature: sig_c04,
        rule: "authenticated traffic (short-term, long-term MD5 and SHA-256 keys over generated user/realm/password; tails MI, SHA256, MI+SHA256, each with and without FINGERPRINT) between the real client and the reference server over a corrupting channel; systematic part: for sampled in-flight messages whose MAC verifies independently, the untampered message must be accepted by decode(with_key, with_validation) and validate(get_input_text), a key derived from a password one character off must be rejected, and every single-bit fault in every byte of the protected prefix (except the two header-length bytes) and of the MAC is applied in turn and must never be accepted as authenticated (real vs reference verifier, differential); distinct = distinct (algorithm, key kind, attribute shape, fault region, verdicts)",
        quick_runs: 300000,
        thorough_runs: 3000000,
        required_probes: &[],
        extra: Some(crate::oracle_tap::extra_c04),
        run: None,
        assumptions: COMMON_ASSUMPTIONS,
    }
}

// ---- C09 -------------------------------------------------------------------------------------

fn check_c09(l: &Ledger, e: &[(String, String)], _s: &PropSpec) -> Vec<Violation> {
    if let Some(kv) = sweep_entry(e) {
        return crate::oracle_tap::replay_sweep_c09(&kv);
    }
    let mut out = crate::oracle_tap::check_c09_ledger(l);
    // "... never changes what is decoded nor makes validation fail", seen at the client: a message that the
    // client must accept by the FINGERPRINT / credential rules (C10, C07, C08 oracles) and that carries attributes
    // the ordering rule does not admit must not be rejected -- what follows the admitted part is to be ignored
    for v in oracle_cred::check_c10_client(l).into_iter().chain(oracle_cred::check_c07(l)).chain(oracle_cred::check_c08(l)) {
        if !(v.key.contains("not-delivered") || v.key.contains("rejected") || v.key.contains("dropped")) {
            continue;
        }
        let Some(st) = l.steps.get(v.step) else { continue };
        if st.idx != v.step {
            continue;
        }
        if let Call::Recv { bytes, .. } = &st.call {
            if let Ok(p) = crate::wire::parse(bytes) {
                if crate::wire::admitted(&p.types()).iter().any(|a| !*a) {
                    out.push(Violation { prop: "C09", key: format!("C09/inadmissible-attributes-made-the-client-reject:{}", v.key), step: v.step, detail: v.detail });
                }
            }
        }
    }
    out
}

fn sig_c09(l: &Ledger) -> Vec<u64> {
    let mut out = vec![];
    for st in &l.steps {
        if let Call::Recv { bytes, .. } = &st.call {
            if let Ok(p) = crate::wire::parse(bytes) {
                let t = p.types();
                let adm = crate::wire::admitted(&t);
                if adm.iter().any(|a| !*a) {
                    let kinds: Vec<u8> = t.iter().map(|x| match *x { 0x0008 => 1, 0x001c => 2, 0x8028 => 3, _ => 0 }).collect();
                    out.push(hash_of(&(kinds, matches!(st.result, CallResult::Ok))));
                }
            }
        }
    }
    out
}

fn c09() -> PropSpec {
    let mut p = Profile::base("splice");
    p.p_splice = 350;
    p.p_corrupt = 20;
    p.p_srv_integ = 120;
    p.p_fp = 500;
    p.mech_w = [2, 3, 1, 1, 3];
    p.n_app = (1, 5);
    p.inj_w = [2, 1, 1, 3, 0, 0, 1, 1, 0, 2];
    PropSpec {
        id: "C09",
        tag: 9,
        level: "exploration",
        profile: p,
        opts: RunOpts::default(),
        check: check_c09,
        signature: sig_c09,
        rule: "on-path splice faults: 1-4 attributes drawn from {ordinary, unknown, MI, MI-SHA256, FINGERPRINT}, each with right or wrong MAC/CRC for its position, appended to valid in-flight messages with every base tail; at the wire tap the decoded attribute list of every decoder configuration is compared with an independent 3-flag admission automaton (and the validation verdict with the independently verified admitted attributes), and what the client delivers must contain exactly the admitted attributes; systematic part: every suffix up to length 3 (quick) / 4 (thorough) over 7 tokens appended to each of the 8 base tails; non-trivial = the message carries at least one inadmissible attribute; distinct = distinct sequence of attribute kinds x client verdict; coverage of the 32 (automaton state, next kind) pairs is required",
        quick_runs: 800000,
        thorough_runs: 16000000,
        required_probes: &["attributes_after_fingerprint", "inadmissible_attribute_on_the_wire"],
        extra: Some(crate::oracle_tap::extra_c09),
        run: None,
        assumptions: COMMON_ASSUMPTIONS,
    }
}

// ---- C05 -------------------------------------------------------------------------------------

fn check_c05(l: &Ledger, _e: &[(String, String)], _s: &PropSpec) -> Vec<Violation> {
    oracle_tx::check_c05(l)
}

/// non-trivial: the history contains at least one delivery or timer call after a transaction's final outcome
fn sig_c05(l: &Ledger) -> Vec<u64> {
    let mut post = false;
    for tx in &l.txs {
        if let Some(fs) = tx.final_step() {
            for st in l.steps.iter().skip(fs + 1) {
                if st.phase == Phase::Probe {
                    continue;
                }
                match &st.call {
                    Call::Recv { bytes, .. } if bytes.len() >= 20 && bytes[8..20] == tx.id => post = true,
                    _ => {}
                }
            }
        }
    }
    if post {
        vec![hist_sig(l)]
    } else {
        vec![]
    }
}

fn c05() -> PropSpec {
    let mut p = Profile::base("lifecycle");
    p.p_dup = 200;
    p.p_delay_huge = 80;
    p.p_srv_dup = 120;
    p.inj_w = [4, 2, 1, 1, 1, 1, 2, 1, 1, 5];
    p.n_inj = (0, 4);
    p.n_app = (1, 5);
    PropSpec {
        id: "C05",
        tag: 5,
        level: "exploration",
        profile: p,
        opts: RunOpts { probe_late_responses: true, ..Default::default() },
        check: check_c05,
        signature: sig_c05,
        rule: "seeded random plans (1-5 requests, loss/dup/delay/reorder/replay/corruption, late/early timers, restarts, every mechanism, both transports); non-trivial = the history contains a delivery for a transaction id after that transaction's final outcome; distinct = distinct abstract history (hist-sig)",
        quick_runs: 2000000,
        thorough_runs: 40000000,
        required_probes: &["late_response_after_final", "response_after_timeout_failure", "duplicate_buffer_delivered", "client_restart"],
        extra: None,
        run: None,
        assumptions: COMMON_ASSUMPTIONS,
    }
}

// ---- C06 -------------------------------------------------------------------------------------

fn check_c06(l: &Ledger, _e: &[(String, String)], _s: &PropSpec) -> Vec<Violation> {
    let mut out = oracle_tx::check_c06(l);
    // "with the defaults this is 0, 500, 1500 ...": as long as no response has ever produced a round-trip sample
    // the RTO a request is scheduled with is the configured one, whatever happened to earlier requests (time-outs,
    // rejected responses); the estimator reference of C15 decides "no sample so far"
    for v in crate::oracle_rtt::check_c15(l).0 {
        if v.key.ends_with("(initial)") {
            out.push(Violation { prop: "C06", key: v.key.replace("C15/", "C06/schedule-not-based-on-the-configured-rto:"), step: v.step, detail: v.detail.clone() });
        }
        // ... and a timer call (retransmission, time-out) never changes the RTO later requests are scheduled with
        if v.key == "C15/rto-changed-by-timer-call" {
            out.push(Violation { prop: "C06", key: "C06/rto-for-later-requests-changed-by-a-timer-call".into(), step: v.step, detail: v.detail });
        }
    }
    out
}

/// distinct (Rc, Rm, lateness pattern class per firing, concurrency); trivial = single request, exact timers, defaults
fn sig_c06(l: &Ledger) -> Vec<u64> {
    let (rc, rm, rto) = l.cfg.rc_rm_rto();
    let mut pattern: Vec<u8> = vec![];
    let mut any_inexact = false;
    for st in &l.steps {
        if st.phase != Phase::Main && st.phase != Phase::Quiesce {
            continue;
        }
        if let Call::Timeout { spurious, .. } = &st.call {
            // lateness class relative to the earliest pending expiry of awaiting transactions
            let mut min_exp = u64::MAX;
            for t in &l.txs {
                if t.gen == st.gen && t.awaiting_before(st.idx) {
                    let sch = oracle_tx::schedule(t.t0, t.rto_ns, rc, rm);
                    let tau = t.transmissions.iter().filter(|(s, _, _)| *s < st.idx).map(|(_, t, _)| *t).last().unwrap_or(t.t0);
                    min_exp = min_exp.min(sch.pending(tau));
                }
            }
            let class = if min_exp == u64::MAX {
                0
            } else if st.t < min_exp {
                1
            } else if st.t == min_exp {
                2
            } else if st.t - min_exp < t_rto(l) {
                3
            } else {
                4
            };
            if class != 2 || *spurious {
                any_inexact = true;
            }
            pattern.push(class);
        }
    }
    let conc = l.steps.iter().map(|s| s.snap.outstanding.len()).max().unwrap_or(0);
    let default_cfg = matches!(l.cfg.transport, Transport::Unreliable { rto_ns, rm: 16, rc: 7, .. } if rto_ns == 500_000_000);
    let _ = rto;
    if conc <= 1 && !any_inexact && default_cfg {
        return vec![];
    }
    vec![hash_of(&(rc, rm, pattern, conc.min(4), l.cfg.is_reliable()))]
}

fn t_rto(l: &Ledger) -> u64 {
    l.cfg.rc_rm_rto().2
}

fn timer_profile(name: &'static str) -> Profile {
    let mut p = Profile::base(name);
    p.mech_w = [6, 1, 0, 0, 1];
    p.p_fp = 100;
    p.rc = (1, 10);
    p.rm = (1, 32);
    p.p_timer_late = 250;
    p.p_timer_very_late = 80;
    p.p_timer_early = 80;
    p.p_srv_silent = 500;
    p.p_drop = 200;
    p.n_app = (1, 4);
    p.n_inj = (0, 3);
    p.inj_w = [1, 1, 0, 1, 0, 0, 4, 3, 0, 1];
    p.app_gap_ns = (1_000_000, 40 * SEC);
    p.p_short_buf = 10;
    p.max_tx = &[4, 10];
    p.p_swarm_off = 150;
    p
}

fn c06() -> PropSpec {
    PropSpec {
        id: "C06",
        tag: 6,
        level: "exploration",
        profile: timer_profile("timers"),
        opts: RunOpts::default(),
        check: check_c06,
        signature: sig_c06,
        rule: "seeded random plans (Rc 1-10, Rm 1-32, RTO 20ms-3s, 1-4 requests sharing the timer; timer calls exact/early/late/coalesced/stalled; silent or late server; both transports); distinct = distinct (Rc, Rm, lateness class per timer call, peak concurrency, transport); trivial (not counted) = single request, exact timers, default configuration",
        quick_runs: 3000000,
        thorough_runs: 60000000,
        required_probes: &["timer_skipped_slots", "late_call_beyond_deadline", "two_expiries_served_by_one_call", "timer_call_before_any_expiry", "timer_call_late"],
        extra: None,
        run: None,
        assumptions: COMMON_ASSUMPTIONS,
    }
}

// ---- C11 -------------------------------------------------------------------------------------

fn check_c11(l: &Ledger, _e: &[(String, String)], _s: &PropSpec) -> Vec<Violation> {
    oracle_tx::check_c11(l)
}

/// non-trivial: at least two concurrent requests whose pending expiries interleave
fn sig_c11(l: &Ledger) -> Vec<u64> {
    let conc = l.steps.iter().map(|s| s.snap.outstanding.len()).max().unwrap_or(0);
    if conc < 2 {
        return vec![];
    }
    // interleave: the sequence of transactions named by successive notifications changes back and forth
    let mut named: Vec<usize> = vec![];
    for st in &l.steps {
        for e in &st.events {
            if let Ev::Timer(id, _) = e {
                if let Some(t) = l.tx_by_id(id, st.gen) {
                    if named.last() != Some(&t.k) {
                        named.push(t.k);
                    }
                }
            }
        }
    }
    let mut seen = std::collections::BTreeSet::new();
    let mut interleaved = false;
    for k in &named {
        if !seen.insert(*k) {
            interleaved = true;
        }
    }
    if !interleaved {
        return vec![];
    }
    vec![hist_sig(l)]
}

fn c11() -> PropSpec {
    let mut p = timer_profile("shared-timer");
    p.n_app = (2, 5);
    p.p_srv_silent = 300;
    p.p_indication = 150;
    p.inj_w = [2, 2, 1, 3, 1, 1, 4, 2, 0, 2];
    p.n_inj = (0, 4);
    p.app_gap_ns = (100_000, 10 * SEC);
    p.mech_w = [5, 2, 1, 1, 2];
    PropSpec {
        id: "C11",
        tag: 11,
        level: "exploration",
        profile: p,
        opts: RunOpts::default(),
        check: check_c11,
        signature: sig_c11,
        rule: "seeded random plans (2-5 requests started at different instants, responses/indications/rejected buffers/timer calls of arbitrary lateness, both transports, controller follows the documented contract literally); non-trivial = at least two concurrent requests and the notifications switch back to a transaction named earlier (interleaving expiries); distinct = distinct abstract history",
        quick_runs: 2500000,
        thorough_runs: 50000000,
        required_probes: &["two_expiries_served_by_one_call", "notification_zero_overdue_at_send", "three_or_more_concurrent_requests", "timer_call_late"],
        extra: None,
        run: None,
        assumptions: COMMON_ASSUMPTIONS,
    }
}

// ---- C12 -------------------------------------------------------------------------------------

fn check_c12(l: &Ledger, e: &[(String, String)], s: &PropSpec) -> Vec<Violation> {
    let mut v = oracle_tx::check_c12(l);
    if v.is_empty() {
        v.extend(crate::oracle_twin::check_c12_twin(l, e, s));
    }
    v
}

/// non-trivial: a send was attempted while at least one earlier request had finished by a failure path
/// or the limit was reached; distinct by (limit, sequence of (count-before, refused, kind of last final))
fn sig_c12(l: &Ledger) -> Vec<u64> {
    let mut seq: Vec<(usize, bool)> = vec![];
    let mut kinds: Vec<u8> = vec![];
    let mut interesting = false;
    for st in &l.steps {
        if let Call::SendRequest { .. } = st.call {
            let count = l.txs.iter().filter(|t| t.gen == st.gen && t.awaiting_before(st.idx)).count();
            let refused = matches!(st.result, CallResult::Err(ErrKind::MaxOutstanding));
            let failed_before = l.txs.iter().any(|t| {
                t.gen == st.gen && t.final_step().map_or(false, |f| f < st.idx) && !matches!(t.finals[0].2, Outcome::Delivered(_))
            });
            if refused || failed_before {
                interesting = true;
            }
            seq.push((count, refused));
        }
    }
    for t in &l.txs {
        if let Some((_, _, o)) = t.finals.first() {
            kinds.push(match o {
                Outcome::Delivered(_) => 0,
                Outcome::Retry => 1,
                Outcome::Failed(Why::TimedOut) => 2,
                Outcome::Failed(Why::ProtectionViolated) => 3,
                Outcome::Failed(_) => 4,
            });
        }
    }
    if !interesting {
        return vec![];
    }
    vec![hash_of(&(l.cfg.max_tx, seq, kinds))]
}

fn c12() -> PropSpec {
    let mut p = Profile::base("capacity");
    p.max_tx = &[0, 1, 1, 2, 2, 3, 4, 10];
    p.p_gap_600s = 25;
    p.p_burst = 150;
    p.n_app = (2, 40);
    p.app_gap_ns = (1000, 3 * SEC);
    p.p_srv_silent = 250;
    p.p_srv_integ = 200;
    p.p_indication = 150;
    p.rc = (1, 4);
    p.rm = (1, 6);
    p.rto_ms = (20, 400);
    p.p_default_timing = 50;
    p.n_inj = (0, 6);
    PropSpec {
        id: "C12",
        tag: 12,
        level: "exploration",
        profile: p,
        opts: RunOpts { probe_capacity: true, ..Default::default() },
        check: check_c12,
        signature: sig_c12,
        rule: "seeded random walks (limits 0-4 and 10, 2-40 application sends mixed with indications, responses of every kind, rejected buffers, expiries; then a capacity-fill probe at quiescence); non-trivial = some send was refused or attempted after an earlier request ended on a failure/retry path; distinct = distinct (limit, sequence of (count before, refused), sequence of final-outcome kinds)",
        quick_runs: 400000,
        thorough_runs: 8000000,
        required_probes: &["refused_at_limit", "time_out_failure", "retry_after_401", "time_out_reported_as_protection_violated"],
        extra: None,
        run: None,
        assumptions: COMMON_ASSUMPTIONS,
    }
}

// ---- C07 -------------------------------------------------------------------------------------

fn fresh_probe(prop: &'static str, l: &Ledger) -> Option<Violation> {
    let (n, last) = oracle_tx::fresh_probe_failure(l)?;
    Some(Violation {
        prop,
        key: format!("{}/fresh-request-not-delivered-after-faults-stopped({},last={})", prop, crate::world::mech_to_str(&l.cfg.mech), last),
        step: l.steps.len().saturating_sub(1),
        detail: format!(
            "after faults stopped (honest server, exact timers, perfect network, fresh server session) a new request was not delivered within 3 exchanges: {} exchange(s), last outcome {}",
            n, last
        ),
    })
}

fn check_c07(l: &Ledger, _e: &[(String, String)], _s: &PropSpec) -> Vec<Violation> {
    let mut v = oracle_cred::check_c07(l);
    if matches!(l.cfg.mech, crate::server::Mech::ShortTerm(_)) {
        v.extend(fresh_probe("C07", l));
    }
    v
}

/// Reply-class sequence per transaction: for every response/indication handed to the client, the class of
/// its integrity protection as the independent verifier sees it, together with the client's reaction.
fn reply_classes(l: &Ledger) -> Vec<(u8, u8, u8, u8)> {
    let key = l.cfg.pw().into_bytes();
    let mut seq = vec![];
    for st in &l.steps {
        if let Call::Recv { bytes, .. } = &st.call {
            if let Some(s) = oracle_cred::see(bytes) {
                if s.p.class == 0 {
                    continue;
                }
                let c = |has: bool, t: u16| -> u8 {
                    if !has {
                        0
                    } else if crate::wire::verify_integrity(bytes, &s.p, t, &key) == crate::wire::Verdict::Good {
                        1
                    } else {
                        2
                    }
                };
                let res = match (&st.result, st.events.first()) {
                    (CallResult::Ok, Some(Ev::Received(_))) => 0u8,
                    (CallResult::Ok, Some(Ev::Failed(..))) => 1,
                    (CallResult::Ok, Some(Ev::Retry(_))) => 2,
                    (CallResult::Err(_), _) => 3,
                    _ => 4,
                };
                seq.push((s.p.class, c(s.has_mi, crate::wire::A_MI), c(s.has_sha, crate::wire::A_MI256), res));
            }
        }
    }
    seq
}

fn sig_c07(l: &Ledger) -> Vec<u64> {
    if !matches!(l.cfg.mech, crate::server::Mech::ShortTerm(_)) {
        return vec![];
    }
    let seq = reply_classes(l);
    if seq.len() < 2 {
        return vec![];
    }
    vec![hash_of(&(seq, l.cfg.is_reliable(), crate::world::mech_to_str(&l.cfg.mech)))]
}

fn c07() -> PropSpec {
    let mut p = Profile::base("short-term");
    p.mech_w = [0, 3, 1, 1, 0];
    p.max_tx = &[1, 2, 4, 10, 10, 16];
    p.p_burst = 200;
    p.p_storm = 60;
    p.n_app = (1, 14);
    p.p_srv_integ = 350;
    p.p_srv_code = 150;
    p.p_srv_dup = 100;
    p.p_indication = 150;
    p.inj_w = [2, 1, 1, 6, 1, 0, 2, 1, 0, 2];
    p.n_inj = (0, 4);
    p.rc = (1, 5);
    p.p_corrupt = 30;
    PropSpec {
        id: "C07",
        tag: 7,
        level: "exploration",
        profile: p,
        opts: RunOpts { probe_fresh_request: true, ..Default::default() },
        check: check_c07,
        signature: sig_c07,
        rule: "seeded random plans with short-term credentials (algorithm preconfigured to MI / SHA256 or left to be learned; server replies per request drawn from {valid MI, valid SHA256, both, none, corrupted MAC, MAC under another password, the non-agreed algorithm, duplicates} for success/error responses and indications; both transports; interleaved with timers and further requests); non-trivial = at least two replies reached the client; distinct = distinct sequence of (message class, MI verdict, SHA256 verdict, client reaction) x transport x initial algorithm",
        quick_runs: 1500000,
        thorough_runs: 30000000,
        required_probes: &["short_term_algorithm_learned", "both_integrity_in_response", "time_out_reported_as_protection_violated", "protection_violated_immediately(reliable)", "indication_delivered", "indication_rejected", "fresh_request_delivered_after_faults_stopped", "more_than_ten_requests_marked_by_rejected_responses"],
        extra: None,
        run: None,
        assumptions: COMMON_ASSUMPTIONS,
    }
}

// ---- C08 -------------------------------------------------------------------------------------

fn check_c08(l: &Ledger, _e: &[(String, String)], _s: &PropSpec) -> Vec<Violation> {
    let mut v = oracle_cred::check_c08(l);
    if l.cfg.mech == crate::server::Mech::LongTerm {
        v.extend(fresh_probe("C08", l));
    }
    v
}

fn sig_c08(l: &Ledger) -> Vec<u64> {
    if l.cfg.mech != crate::server::Mech::LongTerm {
        return vec![];
    }
    // server-behaviour sequence: (class, error code, integrity presence, client reaction) per delivered response
    let mut seq = vec![];
    for st in &l.steps {
        if let Call::Recv { bytes, .. } = &st.call {
            if let Some(s) = oracle_cred::see(bytes) {
                if s.p.class < 2 {
                    continue;
                }
                let res = match (&st.result, st.events.first()) {
                    (CallResult::Ok, Some(Ev::Received(_))) => 0u8,
                    (CallResult::Ok, Some(Ev::Failed(..))) => 1,
                    (CallResult::Ok, Some(Ev::Retry(_))) => 2,
                    (CallResult::Err(_), _) => 3,
                    _ => 4,
                };
                seq.push((s.p.class, s.p.error_code().unwrap_or(0), s.has_mi, s.has_sha, s.p.count(crate::wire::A_PASSWORD_ALGORITHMS) > 0, res));
            }
        }
    }
    if seq.len() < 2 {
        return vec![];
    }
    vec![hash_of(&(seq, l.cfg.is_reliable()))]
}

fn c08() -> PropSpec {
    let mut p = Profile::base("long-term");
    p.mech_w = [0, 0, 0, 0, 1];
    p.p_srv_lt = 300;
    p.p_srv_hostile = 40;
    p.p_srv_integ = 150;
    p.p_srv_code = 120;
    p.p_app_collide = 400;
    p.p_app_attrs = 500;
    p.n_app = (1, 5);
    p.n_inj = (0, 3);
    p.inj_w = [2, 1, 1, 2, 1, 0, 1, 1, 0, 2];
    p.p_retry_ignore = 50;
    p.p_corrupt = 20;
    p.p_indication = 60;
    PropSpec {
        id: "C08",
        tag: 8,
        level: "exploration",
        profile: p,
        opts: RunOpts { probe_fresh_request: true, ..Default::default() },
        check: check_c08,
        signature: sig_c08,
        rule: "seeded random conversations with long-term credentials (up to 5 application requests x up to 4 retries; server behaviours drawn per request from {401 with/without PASSWORD-ALGORITHMS, anonymity bit, plain or cookie nonce; 438 with new nonce; authenticated success; unauthenticated / wrongly keyed / wrong-kind success; other error codes with and without integrity; unsupported algorithm list; missing realm/nonce/error-code}; application-supplied credential attributes; both transports; network faults on top); every request the client emits after a challenge is run through an independent RFC 8489 9.2.4 acceptance predicate; non-trivial = at least two responses reached the client; distinct = distinct sequence of (class, error code, integrity attrs, algorithms offered, client reaction) x transport",
        quick_runs: 800000,
        thorough_runs: 16000000,
        required_probes: &["retry_after_401", "retry_after_438", "long_term_challenge_in_mid_session", "do_not_retry", "fresh_request_delivered_after_faults_stopped"],
        extra: None,
        run: None,
        assumptions: COMMON_ASSUMPTIONS,
    }
}

// ---- C10 -------------------------------------------------------------------------------------

fn check_c10(l: &Ledger, e: &[(String, String)], _s: &PropSpec) -> Vec<Violation> {
    if let Some(kv) = sweep_entry(e) {
        return crate::oracle_tap::replay_sweep_bits(&kv);
    }
    oracle_cred::check_c10_client(l)
}

fn sig_c10(l: &Ledger) -> Vec<u64> {
    if !l.cfg.fp {
        return vec![];
    }
    let mut out = vec![];
    for st in &l.steps {
        if let Call::Recv { bytes, fault, .. } = &st.call {
            if let Some(s) = oracle_cred::see(bytes) {
                if s.p.class == 0 {
                    continue;
                }
                let verdict = s.fp as u8;
                let res = matches!(st.result, CallResult::Ok);
                let shape: Vec<u16> = s.p.types();
                let region = fault.clone();
                out.push(hash_of(&(region, shape, crate::world::mech_to_str(&l.cfg.mech), verdict, res, s.p.class)));
            }
        }
    }
    out
}

fn c10() -> PropSpec {
    let mut p = Profile::base("fingerprint");
    p.p_fp = 1000;
    p.p_srv_fp = 300;
    p.p_corrupt = 200;
    p.p_splice = 60;
    p.inj_w = [2, 1, 1, 5, 1, 1, 1, 1, 0, 2];
    p.n_inj = (0, 4);
    p.p_drop = 60;
    PropSpec {
        id: "C10",
        tag: 10,
        level: "fault_enumeration",
        profile: p,
        opts: RunOpts::default(),
        check: check_c10,
        signature: sig_c10,
        rule: "codec half: for sampled in-flight messages carrying FINGERPRINT (built by the real client and by the reference server) the independent CRC-32 must equal the attribute and every single-bit fault at every bit position plus four byte-substitution classes (0x00, 0xFF, +1, pseudo-random) at every byte are applied in turn; the altered bytes must never be accepted as carrying a valid FINGERPRINT (validate(get_input_text), decode(with_validation)); client half: seeded random plans with a fingerprint-configured client under every mechanism; responses and indications arrive with valid, corrupted (bit/byte/length faults in flight), absent or spliced FINGERPRINT; distinct = distinct (fault kind, message attribute shape, mechanism, independent CRC verdict, client verdict, class)",
        quick_runs: 1500000,
        thorough_runs: 30000000,
        required_probes: &["rejected_buffer", "indication_rejected", "attributes_after_fingerprint"],
        extra: Some(crate::oracle_tap::extra_c10),
        run: None,
        assumptions: COMMON_ASSUMPTIONS,
    }
}

// ---- C13 -------------------------------------------------------------------------------------

fn check_c13(l: &Ledger, _e: &[(String, String)], _s: &PropSpec) -> Vec<Violation> {
    let mut out = oracle_cred::check_c13(l);
    // "then the credential attributes the mechanism requires": which ones a mechanism requires in the
    // credential state reached along the history is what the C07 / C08 oracles track (short-term: USERNAME and
    // both integrity attributes until an algorithm is agreed, then exactly that one; long-term: nothing before
    // the first challenge, afterwards what a server following RFC 8489 9.2.4 insists on) -- the rules about
    // *emitted* packets are reported here under C13 keys
    for v in oracle_cred::check_c07(l).into_iter().chain(oracle_cred::check_c08(l)) {
        if v.key.starts_with("C07/emitted-") || v.key.starts_with("C08/first-request-carries-credential-attribute") || v.key.starts_with("C08/strict-server-rejects(") {
            out.push(Violation { prop: "C13", key: format!("C13/required-credential-attributes:{}", v.key), step: v.step, detail: v.detail });
        }
    }
    out
}

fn sig_c13(l: &Ledger) -> Vec<u64> {
    let mut out = vec![];
    for st in &l.steps {
        let attrs = match &st.call {
            Call::SendRequest { attrs, .. } | Call::SendIndication { attrs, .. } => attrs,
            _ => continue,
        };
        if !matches!(st.result, CallResult::OkId(_)) {
            continue;
        }
        // shape of the application list: token kinds with numbers stripped
        let shape: Vec<String> = attrs.split(',').map(|t| t.trim_end_matches(|c: char| c.is_ascii_digit()).to_string()).collect();
        if attrs == "-" {
            continue;
        }
        let state = st.snap.cred.split(" params").next().unwrap_or("").to_string();
        out.push(hash_of(&(shape, state, l.cfg.fp, matches!(st.call, Call::SendIndication { .. }))));
    }
    out
}

fn c13() -> PropSpec {
    let mut p = Profile::base("output-tap");
    p.p_app_attrs = 900;
    p.p_app_collide = 450;
    p.p_indication = 200;
    p.n_app = (1, 6);
    p.p_srv_lt = 200;
    PropSpec {
        id: "C13",
        tag: 13,
        level: "exploration",
        profile: p,
        opts: RunOpts::default(),
        check: check_c13,
        signature: sig_c13,
        rule: "wire tap on everything the client emits along seeded random plans (all mechanisms and credential states, fingerprint on/off, application lists of 1-5 attributes in any order with duplicates and pre-populated USERNAME/USERHASH/REALM/NONCE/PASSWORD-ALGORITHM(S)/MI/MI-SHA256/FINGERPRINT); non-trivial = non-empty application list; distinct = distinct (application list shape, credential state tag, fingerprint setting, class)",
        quick_runs: 2000000,
        thorough_runs: 40000000,
        required_probes: &["indication_sent", "short_term_algorithm_learned", "retry_after_401", "retry_after_438"],
        extra: None,
        run: None,
        assumptions: COMMON_ASSUMPTIONS,
    }
}

// ---- C15 -------------------------------------------------------------------------------------

fn check_c15(l: &Ledger, _e: &[(String, String)], _s: &PropSpec) -> Vec<Violation> {
    crate::oracle_rtt::check_c15(l).0
}

fn sig_c15(l: &Ledger) -> Vec<u64> {
    let (_, f) = crate::oracle_rtt::check_c15(l);
    if f.samples >= 3 && (f.retransmitted_completed > 0 || f.gap_near_600 > 0 || f.gran_dominates > 0) {
        let (rc, rm, rto) = l.cfg.rc_rm_rto();
        vec![hash_of(&(f.samples.min(40), f.retransmitted_completed.min(5), f.gap_near_600.min(3), f.resets.min(3), f.gran_dominates.min(5), rc, rm, rto))]
    } else {
        vec![]
    }
}

fn c15() -> PropSpec {
    let mut p = Profile::base("rtt");
    p.p_reliable = 0;
    p.mech_w = [8, 1, 0, 0, 2];
    p.p_fp = 100;
    p.n_app = (4, 120);
    p.n_inj = (0, 2);
    p.inj_w = [1, 1, 0, 1, 0, 0, 1, 2, 0, 1];
    p.app_gap_ns = (1_000_000, 30 * SEC);
    p.p_gap_600s = 60;
    p.p_delay = 400;
    p.p_drop = 60;
    p.p_dup = 30;
    p.p_delay_huge = 10;
    p.p_srv_silent = 40;
    p.p_srv_think = 200;
    p.p_srv_integ = 20;
    p.p_corrupt = 5;
    p.p_splice = 0;
    p.p_timer_late = 60;
    p.p_timer_very_late = 10;
    p.p_short_buf = 10;
    p.p_default_timing = 150;
    p.max_tx = &[1, 2, 10, 10];
    p.p_swarm_off = 100;
    p.p_perfect = 20;
    p.lat_ns = (1000, 400_000_000);
    PropSpec {
        id: "C15",
        tag: 15,
        level: "exploration",
        profile: p,
        opts: RunOpts::default(),
        check: check_c15,
        signature: sig_c15,
        rule: "seeded random histories on unreliable transport (4-120 transactions per run, response delays from microseconds to beyond the first retransmission, some completed by 401/Retry, idle gaps and stalls drawn around 600 s, arbitrary configured RTO and granularity); after every send and every response the client's RTO (H2) and the first interval announced through the public API are compared with a double-precision RFC 6298 reference within 1e-5 relative + 1 us; non-trivial = at least 3 samples and at least one of {a retransmitted transaction completed, a gap within 1 s of 600 s, granularity dominating 4*RTTVAR}; distinct = distinct (sample count, those counters, Rc, Rm, configured RTO)",
        quick_runs: 250000,
        thorough_runs: 5000000,
        required_probes: &["timer_call_late", "time_out_failure"],
        extra: None,
        run: None,
        assumptions: COMMON_ASSUMPTIONS,
    }
}

// ---- C16 -------------------------------------------------------------------------------------

fn check_custom(l: &Ledger, _e: &[(String, String)], _s: &PropSpec) -> Vec<Violation> {
    l.custom.clone()
}

fn sig_custom(l: &Ledger) -> Vec<u64> {
    l.custom_sigs.clone()
}

fn c16() -> PropSpec {
    PropSpec {
        id: "C16",
        tag: 16,
        level: "exploration",
        profile: Profile::base("stream"),
        opts: RunOpts::default(),
        check: check_custom,
        signature: sig_custom,
        rule: "streams of 1-3 generated STUN packets (0-1000 attribute bytes each, zero-length messages included, optionally one damaged header) under two seeded random chunkings each (empty and one-byte chunks, cuts inside the first or a later header, chunks spanning packets, byte-by-byte), buffer sizes from 24 bytes below to 64 above the largest packet; every call of the real StunPacketDecoder is compared with an independent model; systematic part: every 1- and 2-cut chunking of generated streams up to 110 (quick) / 300 (thorough) bytes; non-trivial = at least one cut; distinct = distinct (set of cut position classes relative to header/packet boundaries, number of packets, buffer slack sign, damaged header, which packets are zero-length)",
        quick_runs: 6000000,
        thorough_runs: 120000000,
        required_probes: &[],
        extra: Some(crate::stream::extra_exhaustive),
        run: Some(crate::stream::run_stream),
        assumptions: &[
            "the stream is delivered in order and without loss (TCP); chunking, timing and segmentation are arbitrary",
            "the model of the expected results is written from the property statement, independent of the implementation",
            "sampling, not proof, except for the exhaustive 1-/2-cut sweep of the listed streams",
        ],
    }
}

// ---- C17 -------------------------------------------------------------------------------------

fn check_c17(l: &Ledger, e: &[(String, String)], s: &PropSpec) -> Vec<Violation> {
    let mut out = crate::oracle_twin::check_c17(l, e, s);
    // The twin comparison cannot look at the protection-violated markers themselves (its twin never delivered the
    // buffers that set them). The documented exception lets a rejected buffer SET the marker of a request; it never
    // lets one REMOVE it: after a rejected buffer every request that was marked before and is still outstanding is
    // still marked (H2 snapshot).
    for w in l.steps.windows(2) {
        let (prev, st) = (&w[0], &w[1]);
        if prev.gen != st.gen || !st.events.is_empty() {
            continue;
        }
        if let (Call::Recv { .. }, CallResult::Err(_)) = (&st.call, &st.result) {
            for id in &prev.snap.violated {
                let still_outstanding = st.snap.outstanding.iter().any(|(i, _)| i == id);
                if still_outstanding && !st.snap.violated.contains(id) {
                    out.push(Violation {
                        prop: "C17",
                        key: "C17/rejected-buffer-cleared-the-protection-violated-marker".into(),
                        step: st.idx,
                        detail: format!("step {}: the buffer was rejected ({:?}) yet the mark \"a response of this request failed authentication\" of a still outstanding request is gone", st.idx, st.result),
                    });
                }
            }
        }
    }
    out
}

fn sig_c17(l: &Ledger) -> Vec<u64> {
    crate::oracle_twin::c17_cases(l).iter().map(|c| hash_of(&(c, l.cfg.is_reliable()))).collect()
}

fn c17() -> PropSpec {
    let mut p = Profile::base("rejected-buffers");
    p.n_inj = (1, 6);
    p.inj_w = [4, 3, 2, 4, 2, 1, 1, 1, 0, 4];
    p.p_corrupt = 120;
    p.p_splice = 30;
    p.p_srv_integ = 250;
    p.p_srv_fp = 150;
    p.p_srv_hostile = 60;
    p.p_srv_dup = 100;
    p.p_dup = 150;
    p.p_reliable = 200;
    p.n_app = (1, 14);
    p.max_tx = &[1, 2, 3, 4, 10, 10, 16];
    p.p_burst = 200;
    p.p_srv_lt = 200;
    PropSpec {
        id: "C17",
        tag: 17,
        level: "exploration",
        profile: p,
        opts: RunOpts { probe_late_responses: true, probe_capacity: true, ..Default::default() },
        check: check_c17,
        signature: sig_c17,
        rule: "seeded random plans in which buffers of every rejected kind (undecodable, request class, unknown id, finished id, bad/missing fingerprint, failed authentication to be ignored, refused indication) land at arbitrary positions of otherwise ordinary histories; each run is executed a second time with exactly the rejected deliveries turned into drops and the two abstract histories are compared step by step (twin run); distinct = distinct (rejection kind, credential-state tag and number of outstanding requests at insertion, transport)",
        quick_runs: 500000,
        thorough_runs: 10000000,
        required_probes: &["rejected_buffer", "indication_rejected", "response_for_unknown_id", "late_response_after_final", "unparseable_buffer_delivered"],
        extra: None,
        run: None,
        assumptions: COMMON_ASSUMPTIONS,
    }
}

pub fn all() -> Vec<PropSpec> {
    vec![c03(), c04(), c05(), c06(), c07(), c08(), c09(), c10(), c11(), c12(), c13(), c15(), c16(), c17()]
}

pub fn find(id: &str) -> Option<PropSpec> {
    all().into_iter().find(|p| p.id == id)
}

#[allow(dead_code)]
fn _unused() {
    let _ = (no_check as crate::runner::CheckFn, sig_hist_all as crate::runner::SigFn);
}
