//! The ledger: what was observed in a run, nothing predicted. All property predicates are
//! written over it.

use crate::server::Mech;
use std::collections::BTreeMap;

pub type Id = [u8; 12];

#[derive(Clone, Debug, PartialEq, Eq)]
pub enum Transport {
    Unreliable { rto_ns: u64, gran_ns: u64, rm: u32, rc: u32 },
    Reliable { timeout_ns: u64 },
}

#[derive(Clone, Debug, PartialEq, Eq)]
pub struct Cfg {
    pub transport: Transport,
    pub max_tx: usize,
    pub mech: Mech,
    pub fp: bool,
    pub user: String,
    pub password: String,
    pub realm: String,
    pub srv_cookie: bool,
    pub srv_anon: bool,
    pub srv_algs: String,
    pub srv_legacy: bool,
    pub srv_lenient: bool,
    pub lat_ns: u64,
    pub n_app: usize,
    /// generation mood (informational in replays): many back-to-back requests, most replies failing authentication
    pub storm: bool,
    pub n_inj: usize,
    pub retry_budget: u32,
    pub txid_seed: u64,
    /// generation profile name (for evidence/statistics only)
    pub profile: String,
}

impl Cfg {
    /// The password after OpaqueString processing, as an independent implementation would use it.
    pub fn pw(&self) -> String {
        crate::wire::opaque_known(&self.password)
    }
    pub fn is_reliable(&self) -> bool {
        matches!(self.transport, Transport::Reliable { .. })
    }
    pub fn rc_rm_rto(&self) -> (u32, u32, u64) {
        match self.transport {
            Transport::Unreliable { rto_ns, rm, rc, .. } => (rc, rm, rto_ns),
            Transport::Reliable { timeout_ns } => (1, 1, timeout_ns),
        }
    }
}

#[derive(Clone, Debug, PartialEq, Eq, Hash)]
pub enum Why {
    DoNotRetry,
    InvalidFingerprint,
    NotFound,
    ProtectionViolated,
    TimedOut,
}

#[derive(Clone, Debug, PartialEq, Eq, Hash)]
pub struct MsgSummary {
    pub class: u8,
    pub method: u16,
    pub id: Id,
    /// attribute type codes of the delivered message, in order
    pub attr_types: Vec<u16>,
}

#[derive(Clone, Debug, PartialEq, Eq, Hash)]
pub enum Ev {
    Output(Vec<u8>),
    Timer(Id, u64),
    Retry(Id),
    Failed(Id, Why),
    Received(MsgSummary),
}

#[derive(Clone, Debug, PartialEq, Eq, Hash)]
pub enum ErrKind {
    Discarded,
    FingerPrintValidationFailed,
    Ignored,
    MaxOutstanding,
    StunCheckFailed,
    Internal(String),
}

#[derive(Clone, Debug, PartialEq, Eq, Hash)]
pub enum CallResult {
    OkId(Id),
    Ok,
    Err(ErrKind),
    Panic(String),
}

/// Where a buffer handed to the client came from.
#[derive(Clone, Debug, PartialEq, Eq, PartialOrd, Ord, Hash)]
pub enum Origin {
    /// packet sent towards the client, named after what it answers (`t<k>.<j>.a<a>.r<i>`: i-th reply to the
    /// a-th arrival of the j-th transmission of transaction k), copy c
    S2c(String, usize),
    /// k-th injection action
    Inj(usize),
    /// epilogue probe
    Probe,
}

#[derive(Clone, Debug, PartialEq, Eq, Hash)]
pub enum Call {
    SendRequest { app: usize, method: u16, attrs: String, buf_len: usize, fill: u8 },
    SendIndication { app: usize, method: u16, attrs: String, buf_len: usize, fill: u8 },
    Recv { bytes: Vec<u8>, origin: Origin, fault: String },
    Timeout { timer_n: Option<usize>, spurious: bool },
    Restart,
}

#[derive(Clone, Debug, Default, PartialEq, Eq, Hash)]
pub struct Snap {
    pub outstanding: Vec<(Id, bool)>,
    /// (id, armed_at_ns, duration_ns)
    pub timeouts: Vec<(Id, u64, u64)>,
    pub rto_ns: Option<u64>,
    pub srtt_ns: Option<u64>,
    pub rttvar_ns: Option<u64>,
    pub last_request_ns: Option<u64>,
    pub cred: String,
    pub violated: Vec<Id>,
}

#[derive(Clone, Copy, Debug, PartialEq, Eq, Hash)]
pub enum Phase {
    Main,
    /// faults have stopped; timers exact, network perfect, server honest
    Quiesce,
    /// probes issued by the harness after quiescence
    Probe,
}

#[derive(Clone, Debug, Hash)]
pub struct Step {
    pub idx: usize,
    pub t: u64,
    pub call: Call,
    pub result: CallResult,
    pub events: Vec<Ev>,
    pub snap: Snap,
    pub phase: Phase,
    /// client generation (incremented by a restart)
    pub gen: u32,
}

#[derive(Clone, Debug, PartialEq, Eq, Hash)]
pub enum Outcome {
    Delivered(u8),
    Failed(Why),
    Retry,
}

#[derive(Clone, Debug)]
pub struct Tx {
    pub k: usize,
    pub id: Id,
    pub app: usize,
    pub method: u16,
    pub step_sent: usize,
    pub t0: u64,
    /// RTO the client used for this transaction (H2 snapshot right after the send)
    pub rto_ns: u64,
    pub gen: u32,
    /// (step, time, bytes)
    pub transmissions: Vec<(usize, u64, Vec<u8>)>,
    pub finals: Vec<(usize, u64, Outcome)>,
    pub probe: bool,
}

impl Tx {
    pub fn final_step(&self) -> Option<usize> {
        self.finals.first().map(|f| f.0)
    }
    pub fn awaiting_before(&self, step: usize) -> bool {
        self.step_sent < step && self.final_step().map_or(true, |f| f >= step)
    }
    pub fn awaiting_after(&self, step: usize) -> bool {
        self.step_sent <= step && self.final_step().map_or(true, |f| f > step)
    }
}

#[derive(Clone, Debug, Default)]
pub struct Stats {
    pub faults: BTreeMap<String, u64>,
    pub probes: BTreeMap<String, u64>,
    pub steps: u64,
    pub sim_ns: u128,
    pub tx_started: u64,
    pub tx_completed: u64,
}

impl Stats {
    pub fn fault(&mut self, k: &str) {
        *self.faults.entry(k.to_string()).or_insert(0) += 1;
    }
    pub fn probe(&mut self, k: &str) {
        *self.probes.entry(k.to_string()).or_insert(0) += 1;
    }
    pub fn merge(&mut self, o: &Stats) {
        for (k, v) in &o.faults {
            *self.faults.entry(k.clone()).or_insert(0) += v;
        }
        for (k, v) in &o.probes {
            *self.probes.entry(k.clone()).or_insert(0) += v;
        }
        self.steps += o.steps;
        self.sim_ns += o.sim_ns;
        self.tx_started += o.tx_started;
        self.tx_completed += o.tx_completed;
    }
}

#[derive(Clone, Debug)]
pub struct Ledger {
    pub cfg: Cfg,
    pub steps: Vec<Step>,
    pub txs: Vec<Tx>,
    pub stats: Stats,
    /// first step index of the quiescence phase (if reached)
    pub quiesce_from: Option<usize>,
    /// simulated time at which the probe phase started (if it did)
    pub probe_start_ns: Option<u64>,
    /// application index of the "fresh request after faults stopped" probe (if issued)
    pub fresh_probe_app: Option<usize>,
    /// the run hit the step cap before finishing
    pub truncated: bool,
    /// scenario engines that do not drive a StunClient (C16 stream reassembly, ...) report here
    pub custom: Vec<Violation>,
    pub custom_log: Vec<String>,
    pub custom_sigs: Vec<u64>,
}

impl Ledger {
    pub fn tx_by_id(&self, id: &Id, gen: u32) -> Option<&Tx> {
        self.txs.iter().rev().find(|t| &t.id == id && t.gen == gen)
    }
    pub fn tx_any_gen(&self, id: &Id) -> Option<&Tx> {
        self.txs.iter().rev().find(|t| &t.id == id)
    }
    pub fn panicked(&self) -> Option<(usize, &str)> {
        self.steps.iter().find_map(|s| match &s.result {
            CallResult::Panic(m) => Some((s.idx, m.as_str())),
            _ => None,
        })
    }
}

#[derive(Clone, Debug, PartialEq, Eq)]
pub struct Violation {
    pub prop: &'static str,
    /// narrow classification key (rule + situation)
    pub key: String,
    pub step: usize,
    pub detail: String,
}

pub fn idhex(id: &Id) -> String {
    crate::crypto::hex(id)
}
