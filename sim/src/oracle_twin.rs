//! Metamorphic twin-run oracles (public API only):
//!  * C17 — a rejected buffer changes nothing: the plan is executed again with the rejected deliveries
//!    turned into drops; both abstract ledgers must agree step for step.
//!  * C12 — a refused request changes nothing: same, with the refused sends skipped.

use crate::ledger::*;
use crate::plan::Source;
use crate::runner::PropSpec;
use crate::wire;
use crate::world;
use std::collections::BTreeSet;

fn v(prop: &'static str, key: String, step: usize, detail: String) -> Violation {
    Violation { prop, key, step, detail }
}

/// Stable name of a transaction id within one execution: `tx#k` for requests (creation order), `ind#n` for
/// the n-th indication the client sent; None for ids the client never produced.
fn id_name(l: &Ledger, id: &Id) -> Option<String> {
    if let Some(t) = l.tx_any_gen(id) {
        return Some(format!("tx#{}", t.k));
    }
    let mut n = 0usize;
    for st in &l.steps {
        if let (Call::SendIndication { .. }, CallResult::OkId(i)) = (&st.call, &st.result) {
            if i == id {
                return Some(format!("ind#{}", n));
            }
            n += 1;
        }
    }
    None
}

/// Canonical form of a packet for comparing two executions: a transaction id the client produced is replaced
/// by its stable name, and everything that depends on the id is blanked (MAC / CRC values, the part of an
/// XOR-ed IPv6 address that is XOR-ed with the id).
fn canon_packet(l: &Ledger, b: &[u8]) -> Vec<u8> {
    let Ok(p) = wire::parse(b) else {
        // not even a TLV structure (truncated, length edited, ...): if it still carries an id the client
        // produced, only its length, its first eight bytes and the id's stable name are compared (whatever
        // else it contains may depend on the id)
        if b.len() >= 20 {
            let mut id = [0u8; 12];
            id.copy_from_slice(&b[8..20]);
            if let Some(name) = id_name(l, &id) {
                let mut out = b[..8].to_vec();
                out.extend_from_slice(&(b.len() as u32).to_be_bytes());
                out.extend_from_slice(&crate::util::hash_str(&name).to_be_bytes());
                return out;
            }
        }
        return b.to_vec();
    };
    let mut out = b.to_vec();
    if let Some(name) = id_name(l, &p.txid) {
        let mut id = [0xEEu8; 12];
        let h = crate::util::hash_str(&name).to_be_bytes();
        id[..8].copy_from_slice(&h);
        out[8..20].copy_from_slice(&id);
        for a in &p.attrs {
            let lo = a.off + 4;
            let hi = lo + a.value.len();
            match a.typ {
                wire::A_MI | wire::A_MI256 | wire::A_FINGERPRINT => {
                    for x in &mut out[lo..hi] {
                        *x = 0;
                    }
                }
                0x0012 | 0x0016 | wire::A_XOR_MAPPED_ADDRESS if a.value.len() >= 20 => {
                    for x in &mut out[lo + 8..hi] {
                        *x = 0;
                    }
                }
                _ => {}
            }
        }
    }
    out
}

fn canon_id(l: &Ledger, id: &Id) -> String {
    id_name(l, id).unwrap_or_else(|| idhex(id))
}

/// Abstract view of one step (§5.1 of DESIGN.md).
fn abstract_step(l: &Ledger, st: &Step, relax_reason: &BTreeSet<usize>) -> String {
    let call = match &st.call {
        Call::SendRequest { app, method, attrs, buf_len, .. } => format!("send_request(app{},{:x},{},{})", app, method, attrs, buf_len),
        Call::SendIndication { app, method, attrs, buf_len, .. } => format!("send_indication(app{},{:x},{},{})", app, method, attrs, buf_len),
        Call::Recv { bytes, fault, .. } => {
            if fault.is_empty() {
                format!("recv({})", crate::crypto::hex(&canon_packet(l, bytes)))
            } else {
                // a buffer damaged in flight may hide id-dependent bytes (MAC, CRC) anywhere in its (edited)
                // structure: compare its provenance, length, first eight bytes and the stable name of its id
                let name = if bytes.len() >= 20 {
                    let mut id = [0u8; 12];
                    id.copy_from_slice(&bytes[8..20]);
                    // (an id damaged in flight is nobody's id in either run)
                    id_name(l, &id).unwrap_or_else(|| "?".to_string())
                } else {
                    String::new()
                };
                format!("recv[{}]({}B,{},{})", fault, bytes.len(), crate::crypto::hex(&bytes[..bytes.len().min(8)]), name)
            }
        }
        Call::Timeout { .. } => "on_timeout".to_string(),
        Call::Restart => "restart".to_string(),
    };
    let res = match &st.result {
        CallResult::OkId(id) => format!("ok({})", canon_id(l, id)),
        CallResult::Ok => "ok".to_string(),
        CallResult::Err(e) => format!("err({:?})", std::mem::discriminant(e)),
        CallResult::Panic(_) => "panic".to_string(),
    };
    let mut evs = String::new();
    for e in &st.events {
        match e {
            Ev::Output(b) => evs.push_str(&format!(" out({})", crate::crypto::hex(&canon_packet(l, b)))),
            // which of several requests with the same earliest deadline is named is a free choice (C11 checks
            // that the named one is among them): compare the remaining time only
            Ev::Timer(_, d) => evs.push_str(&format!(" timer({})", d)),
            Ev::Retry(id) => evs.push_str(&format!(" retry({})", canon_id(l, id))),
            Ev::Failed(id, w) => {
                let k = l.tx_any_gen(id).map(|t| t.k).unwrap_or(usize::MAX);
                if relax_reason.contains(&k) && matches!(w, Why::ProtectionViolated | Why::TimedOut) {
                    evs.push_str(&format!(" failed({},TimedOut|ProtectionViolated)", canon_id(l, id)));
                } else {
                    evs.push_str(&format!(" failed({},{:?})", canon_id(l, id), w));
                }
            }
            Ev::Received(m) => evs.push_str(&format!(" received({},{},{:x},{:04x?})", canon_id(l, &m.id), m.class, m.method, m.attr_types)),
        }
    }
    // the order of the events of one call is not part of any property (except that the timer notification
    // comes last, which C11 checks): compare them as a multiset
    let mut parts: Vec<&str> = evs.split(' ').filter(|x| !x.is_empty()).collect();
    parts.sort();
    format!("t={} {} -> {} {}", st.t, call, res, parts.join(" "))
}

pub fn rejection_kind(l: &Ledger, st: &Step) -> &'static str {
    let Call::Recv { bytes, .. } = &st.call else { return "other" };
    let Ok(p) = wire::parse(bytes) else { return "undecodable" };
    if !crate::libtap::decodes(bytes) {
        return "undecodable";
    }
    if p.class == wire::C_REQUEST {
        return "request";
    }
    if p.class >= 2 {
        match l.txs.iter().rev().find(|t| t.id == p.txid && t.gen == st.gen) {
            None => return "unknown-id",
            Some(t) if !t.awaiting_before(st.idx) => return "finished-id",
            _ => {}
        }
    }
    if l.cfg.fp && wire::verify_fingerprint(bytes, &p) != wire::Verdict::Good {
        return "bad-fingerprint";
    }
    if p.class == wire::C_INDICATION {
        return "indication-refused";
    }
    "authentication-failed"
}

fn state_tag(st: &Step) -> String {
    let cred = st.snap.cred.split(" params").next().unwrap_or("").to_string();
    format!("{}|out={}", cred, st.snap.outstanding.len().min(4))
}

/// (rejection kind, client state tag at insertion) pairs of a run, for the coverage measure.
pub fn c17_cases(l: &Ledger) -> Vec<(String, String)> {
    let mut out = vec![];
    for (i, st) in l.steps.iter().enumerate() {
        if st.phase == Phase::Probe {
            continue;
        }
        if let (Call::Recv { .. }, CallResult::Err(_)) = (&st.call, &st.result) {
            let before = if i > 0 { state_tag(&l.steps[i - 1]) } else { "initial".to_string() };
            out.push((rejection_kind(l, st).to_string(), before));
        }
    }
    out
}

pub fn check_c17(l: &Ledger, entries: &[(String, String)], spec: &PropSpec) -> Vec<Violation> {
    let mut out = vec![];
    let mut rejected: BTreeSet<Origin> = BTreeSet::new();
    let mut rejected_steps: Vec<usize> = vec![];
    // transactions whose time-out reason may legitimately differ (documented marker)
    let mut relax: BTreeSet<usize> = BTreeSet::new();
    // a request-class message is one of the buffers the client rejects, whatever id it carries
    for st in &l.steps {
        if let (Call::Recv { bytes, fault, .. }, CallResult::Ok) = (&st.call, &st.result) {
            if let Ok(p) = wire::parse(bytes) {
                if p.class == wire::C_REQUEST && crate::libtap::decodes(bytes) {
                    let own = l.txs.iter().any(|t| t.id == p.txid && t.gen == st.gen && t.awaiting_before(st.idx));
                    out.push(v(
                        "C17",
                        format!("C17/request-class-buffer-accepted({})", if own { "id-of-outstanding-request" } else { "foreign-id" }),
                        st.idx,
                        format!("step {}: a request-class message was not rejected [{}]: {:?}", st.idx, fault, st.events),
                    ));
                }
            }
        }
    }
    for st in &l.steps {
        let (Call::Recv { bytes, origin, .. }, CallResult::Err(_)) = (&st.call, &st.result) else { continue };
        if !st.events.is_empty() {
            out.push(v(
                "C17",
                format!("C17/rejected-buffer-produced-events({})", rejection_kind(l, st)),
                st.idx,
                format!("step {}: on_buffer_recv returned {:?} but produced {} event(s)", st.idx, st.result, st.events.len()),
            ));
        }
        if st.phase == Phase::Probe || *origin == Origin::Probe {
            continue;
        }
        rejected.insert(origin.clone());
        rejected_steps.push(st.idx);
        if !l.cfg.is_reliable() && rejection_kind(l, st) == "authentication-failed" {
            if let Ok(p) = wire::parse(bytes) {
                if let Some(t) = l.txs.iter().find(|t| t.id == p.txid && t.gen == st.gen) {
                    relax.insert(t.k);
                }
            }
        }
    }
    if rejected.is_empty() || l.panicked().is_some() || l.truncated {
        return out;
    }
    // twin run: the same plan with exactly those deliveries turned into drops
    let mut opts = spec.opts.clone();
    opts.suppress = rejected.clone();
    opts.probe_start_at = l.probe_start_ns;
    let mut src = Source::replay(entries);
    let twin = world::run(&mut src, &spec.profile, &opts).ledger;
    if twin.truncated {
        return out;
    }
    let orig: Vec<&Step> = l
        .steps
        .iter()
        .filter(|st| !matches!(&st.call, Call::Recv { origin, .. } if rejected.contains(origin) && matches!(st.result, CallResult::Err(_)) && st.phase != Phase::Probe))
        .collect();
    let n = orig.len().max(twin.steps.len());
    for i in 0..n {
        let a = orig.get(i).map(|st| abstract_step(l, st, &relax));
        let b = twin.steps.get(i).map(|st| abstract_step(&twin, st, &relax));
        if a != b {
            // blame the last rejected buffer before the divergence
            let at = orig.get(i).map(|s| s.idx).unwrap_or(l.steps.len());
            let culprit = rejected_steps.iter().rev().find(|s| **s < at).or(rejected_steps.first()).copied().unwrap_or(0);
            let kind = rejection_kind(l, &l.steps[culprit]);
            let what = match (&a, &b) {
                (Some(x), Some(y)) => {
                    let xa = x.split(" -> ").next().unwrap_or("");
                    let ya = y.split(" -> ").next().unwrap_or("");
                    if xa != ya {
                        "different-call-sequence"
                    } else if x.contains("timer(") != y.contains("timer(") || timer_part(x) != timer_part(y) {
                        "timer-notification"
                    } else if x.contains(" out(") != y.contains(" out(") || out_part(x) != out_part(y) {
                        "emitted-packets"
                    } else if x.split(" -> ").nth(1).map(|r| r.split(' ').next()) != y.split(" -> ").nth(1).map(|r| r.split(' ').next()) {
                        "call-result"
                    } else {
                        "events"
                    }
                }
                _ => "history-length",
            };
            out.push(v(
                "C17",
                format!("C17/continuation-differs-after-rejected-buffer({},{})", kind, what),
                at,
                format!(
                    "after the rejected buffer at step {} ({}) the run diverges from the twin run in which that buffer was dropped; first difference at original step {}:\n  with the buffer   : {}\n  buffer dropped    : {}",
                    culprit,
                    kind,
                    at,
                    short(a.as_deref().unwrap_or("<end of run>")),
                    short(b.as_deref().unwrap_or("<end of run>"))
                ),
            ));
            break;
        }
    }
    out
}

fn timer_part(s: &str) -> Vec<&str> {
    s.split(' ').filter(|t| t.starts_with("timer(")).collect()
}

fn out_part(s: &str) -> Vec<&str> {
    s.split(' ').filter(|t| t.starts_with("out(")).collect()
}

fn short(s: &str) -> String {
    if s.len() > 600 {
        format!("{}...", &s[..600])
    } else {
        s.to_string()
    }
}

/// C12: a refused request produces no other change — twin run with the refused sends skipped.
pub fn check_c12_twin(l: &Ledger, entries: &[(String, String)], spec: &PropSpec) -> Vec<Violation> {
    let mut out = vec![];
    if l.panicked().is_some() || l.truncated {
        return out;
    }
    // ordinals of send calls that were refused
    let mut skip: BTreeSet<usize> = BTreeSet::new();
    let mut refused_steps: BTreeSet<usize> = BTreeSet::new();
    let mut ordinal = 0usize;
    for st in &l.steps {
        if matches!(st.call, Call::SendRequest { .. } | Call::SendIndication { .. }) {
            if st.phase != Phase::Probe && matches!(st.result, CallResult::Err(ErrKind::MaxOutstanding)) {
                skip.insert(ordinal);
                refused_steps.insert(st.idx);
            }
            ordinal += 1;
        }
    }
    if skip.is_empty() {
        return out;
    }
    let mut opts = spec.opts.clone();
    opts.skip_sends = skip;
    opts.probe_start_at = l.probe_start_ns;
    let mut src = Source::replay(entries);
    let twin = world::run(&mut src, &spec.profile, &opts).ledger;
    if twin.truncated {
        return out;
    }
    let relax = BTreeSet::new();
    let orig: Vec<&Step> = l.steps.iter().filter(|st| !refused_steps.contains(&st.idx)).collect();
    let n = orig.len().max(twin.steps.len());
    for i in 0..n {
        let a = orig.get(i).map(|st| abstract_step(l, st, &relax));
        let b = twin.steps.get(i).map(|st| abstract_step(&twin, st, &relax));
        if a != b {
            let at = orig.get(i).map(|s| s.idx).unwrap_or(l.steps.len());
            out.push(v(
                "C12",
                "C12/refused-request-changed-later-behaviour".into(),
                at,
                format!(
                    "the run diverges from the twin run in which the refused send_request calls were never made; first difference at original step {}:\n  with refused calls: {}\n  without          : {}",
                    at,
                    short(a.as_deref().unwrap_or("<end of run>")),
                    short(b.as_deref().unwrap_or("<end of run>"))
                ),
            ));
            break;
        }
    }
    out
}
