//! Seeded search over plans: runs many independent simulations on all cores, merges results in
//! run-index order, minimises and persists failing plans, writes the evidence file.

use crate::ledger::*;
use crate::plan::{Plan, Source};
use crate::prng::mix;
use crate::util::{hash_of, hash_str, Json};
use crate::world::{self, Profile, RunOpts};
use std::collections::{BTreeMap, HashSet};
use std::sync::atomic::{AtomicBool, AtomicU64, Ordering};
use std::sync::Mutex;
use std::time::Instant;

pub type CheckFn = fn(&Ledger, &[(String, String)], &PropSpec) -> Vec<Violation>;
pub type SigFn = fn(&Ledger) -> Vec<u64>;

/// Result of the systematic (non-random) part of a check, if it has one.
#[derive(Default)]
pub struct ExtraResult {
    pub evaluations: u64,
    pub distinct: HashSet<u64>,
    pub violations: Vec<(Violation, Vec<(String, String)>)>,
    pub counters: BTreeMap<String, u64>,
    pub samples: Vec<String>,
    pub stats: Stats,
}

pub type ExtraFn = fn(&PropSpec, &CheckArgs) -> ExtraResult;
pub type RunFn = fn(&mut Source, &PropSpec, &RunOpts) -> world::RunResult;

#[derive(Clone)]
pub struct PropSpec {
    pub id: &'static str,
    pub tag: u64,
    pub level: &'static str,
    pub profile: Profile,
    pub opts: RunOpts,
    pub check: CheckFn,
    pub signature: SigFn,
    pub rule: &'static str,
    pub quick_runs: u64,
    pub thorough_runs: u64,
    pub required_probes: &'static [&'static str],
    pub extra: Option<ExtraFn>,
    /// scenario engine; None = the client world of `world::run`
    pub run: Option<RunFn>,
    pub assumptions: &'static [&'static str],
}

#[derive(Clone, Debug)]
pub struct CheckArgs {
    pub tier: String,
    pub seed: u64,
    pub runs: Option<u64>,
    pub threads: usize,
    pub wall_cap_s: f64,
    pub verif_dir: String,
    pub quiet: bool,
}

pub fn hist_sig(l: &Ledger) -> u64 {
    let mut acc: Vec<u64> = Vec::with_capacity(l.steps.len());
    for st in &l.steps {
        if st.phase == Phase::Probe {
            continue;
        }
        let call = match &st.call {
            Call::SendRequest { .. } => 1u64,
            Call::SendIndication { .. } => 2,
            Call::Recv { fault, bytes, .. } => {
                let cls = if bytes.len() >= 2 { ((bytes[0] & 1) as u64) << 1 | ((bytes[1] >> 4) & 1) as u64 } else { 9 };
                3 + (hash_str(fault.split(':').next().unwrap_or("")) % 1000) * 16 + cls * 100_000
            }
            Call::Timeout { spurious, .. } => 4 + *spurious as u64,
            Call::Restart => 6,
        };
        let res = match &st.result {
            CallResult::OkId(_) | CallResult::Ok => 0u64,
            CallResult::Err(e) => 1 + std::mem::discriminant(e).hash_u64(),
            CallResult::Panic(_) => 99,
        };
        let mut evs = 0u64;
        for e in &st.events {
            let k = match e {
                Ev::Output(_) => 1u64,
                Ev::Timer(_, d) => 2 + (*d == 0) as u64,
                Ev::Retry(_) => 4,
                Ev::Failed(_, w) => 5 + std::mem::discriminant(w).hash_u64() % 7,
                Ev::Received(m) => 12 + m.class as u64,
            };
            evs = evs.wrapping_mul(31).wrapping_add(k);
        }
        acc.push(call.wrapping_mul(1_000_003) ^ res.wrapping_mul(7919) ^ evs);
    }
    hash_of(&acc)
}

trait DiscHash {
    fn hash_u64(&self) -> u64;
}
impl<T> DiscHash for std::mem::Discriminant<T> {
    fn hash_u64(&self) -> u64 {
        hash_of(self)
    }
}

/// Keys of the violations of one execution that are not known findings.
fn violation_keys(spec: &PropSpec, l: &Ledger, e: &[(String, String)], known: &Known) -> std::collections::BTreeSet<String> {
    (spec.check)(l, e, spec)
        .into_iter()
        .map(|v| v.key)
        .filter(|k| known.lookup(spec.id, k).is_none())
        .collect()
}

pub fn ledger_digest(l: &Ledger) -> u64 {
    hash_of(&(&l.steps, &l.custom_log))
}

struct Found {
    run: u64,
    violation: Violation,
    entries: Vec<(String, String)>,
}

#[derive(Default)]
struct Merged {
    runs_done: u64,
    stats: Stats,
    sigs: HashSet<u64>,
    hists: HashSet<u64>,
    found: BTreeMap<String, Found>,
    found_count: BTreeMap<String, u64>,
    samples: Vec<(u64, String)>,
    truncated_runs: u64,
    nondeterminism: Vec<String>,
    states: HashSet<u64>,
}

pub fn run_one(spec: &PropSpec, seed: u64, run: u64) -> (Ledger, Vec<(String, String)>) {
    let mut src = Source::generate(mix(seed, spec.tag, run));
    let r = match spec.run {
        Some(f) => f(&mut src, spec, &spec.opts),
        None => world::run(&mut src, &spec.profile, &spec.opts),
    };
    (r.ledger, r.entries)
}

pub fn replay_entries(spec: &PropSpec, entries: &[(String, String)]) -> Ledger {
    let mut src = Source::replay(entries);
    match spec.run {
        Some(f) => f(&mut src, spec, &spec.opts).ledger,
        None => world::run(&mut src, &spec.profile, &spec.opts).ledger,
    }
}

/// Greedy delta-debugging over plan entries: keep a candidate only if it fails with the same key.
pub fn minimise(spec: &PropSpec, entries: &[(String, String)], key: &str, budget: usize) -> Vec<(String, String)> {
    let fails = |e: &[(String, String)]| -> bool {
        let l = replay_entries(spec, e);
        (spec.check)(&l, e, spec).iter().any(|v| v.key == key)
    };
    let mut cur: Vec<(String, String)> = entries.to_vec();
    let mut used = 0usize;
    // drop the informational swarm entry
    cur.retain(|(k, _)| k != "swarm");
    if !fails(&cur) {
        return entries.to_vec();
    }
    let mut chunk = (cur.len() / 2).max(1);
    while chunk >= 1 && used < budget {
        let mut i = 0;
        let mut progress = false;
        while i < cur.len() && used < budget {
            let end = (i + chunk).min(cur.len());
            if cur[i..end].iter().any(|(k, _)| k == "cfg") {
                i += 1;
                continue;
            }
            let mut cand = cur.clone();
            cand.drain(i..end);
            used += 1;
            if fails(&cand) {
                cur = cand;
                progress = true;
            } else {
                i += chunk;
            }
        }
        if chunk == 1 && !progress {
            break;
        }
        if chunk > 1 {
            chunk /= 2;
        }
    }
    // list-valued entries (chunk cut positions): drop elements one at a time
    let mut i = 0;
    while i < cur.len() && used < budget {
        let (k, val) = cur[i].clone();
        if k.starts_with("cuts#") && val.contains(',') {
            let mut items: Vec<String> = val.split(',').map(|x| x.to_string()).collect();
            let mut j = 0;
            while j < items.len() && items.len() > 1 && used < budget {
                let mut cand_items = items.clone();
                cand_items.remove(j);
                let mut cand = cur.clone();
                cand[i].1 = cand_items.join(",");
                used += 1;
                if fails(&cand) {
                    items = cand_items;
                    cur = cand;
                } else {
                    j += 1;
                }
            }
        }
        i += 1;
    }
    // shrink numeric values of the remaining fault entries towards small round numbers
    let mut i = 0;
    while i < cur.len() && used < budget {
        let (k, val) = cur[i].clone();
        if k != "cfg" {
            for field in ["late=", "delay=", "early=", "think=", "gap=", "dur="] {
                if let Some(pos) = val.find(field) {
                    let rest = &val[pos + field.len()..];
                    let num: String = rest.chars().take_while(|c| c.is_ascii_digit()).collect();
                    if let Ok(n) = num.parse::<u64>() {
                        for cand_n in [1_000_000u64, 1_000_000_000, n / 1_000_000 * 1_000_000] {
                            if cand_n == n || cand_n == 0 {
                                continue;
                            }
                            let nv = format!("{}{}{}{}", &val[..pos], field, cand_n, &rest[num.len()..]);
                            let mut cand = cur.clone();
                            cand[i].1 = nv;
                            used += 1;
                            if fails(&cand) {
                                cur = cand;
                                break;
                            }
                        }
                    }
                }
            }
        }
        i += 1;
    }
    cur
}

pub struct Known {
    pub entries: Vec<(String, String, String)>, // (property, key, what)
}

pub fn load_known(dir: &str) -> Known {
    let mut entries = vec![];
    let path = format!("{}/known_findings.txt", dir);
    if let Ok(t) = std::fs::read_to_string(&path) {
        for l in t.lines() {
            let l = l.trim();
            if let Some(rest) = l.strip_prefix("known:") {
                let rest = rest.trim();
                // known: property=C08 key=<key> what=<free text>
                let mut prop = String::new();
                let mut key = String::new();
                let mut what = String::new();
                if let Some(p) = rest.find("property=") {
                    prop = rest[p + 9..].split_whitespace().next().unwrap_or("").to_string();
                }
                if let Some(p) = rest.find("key=") {
                    key = rest[p + 4..].split_whitespace().next().unwrap_or("").to_string();
                }
                if let Some(p) = rest.find("what=") {
                    what = rest[p + 5..].to_string();
                }
                if !prop.is_empty() && !key.is_empty() {
                    entries.push((prop, key, what));
                }
            }
        }
    }
    Known { entries }
}

impl Known {
    pub fn lookup(&self, prop: &str, key: &str) -> Option<&str> {
        self.entries
            .iter()
            .find(|(p, k, _)| p == prop && k == key)
            .map(|(_, _, w)| w.as_str())
    }
}

fn key_hash(key: &str) -> String {
    format!("{:016x}", hash_str(key))[..10].to_string()
}

pub fn run_check(spec: &PropSpec, args: &CheckArgs) -> i32 {
    let t0 = Instant::now();
    let total_runs = args.runs.unwrap_or(if args.tier == "thorough" { spec.thorough_runs } else { spec.quick_runs });
    println!("VERIF_SEED={} property={} tier={} runs={} threads={}", args.seed, spec.id, args.tier, total_runs, args.threads);

    let known0 = load_known(&args.verif_dir);
    let next = AtomicU64::new(0);
    let stop = AtomicBool::new(false);
    let merged: Mutex<Merged> = Mutex::new(Merged::default());
    let capped = AtomicBool::new(false);

    std::thread::scope(|s| {
        for _ in 0..args.threads.max(1) {
            s.spawn(|| {
                world::install_quiet_panic_hook();
                let mut local = Merged::default();
                loop {
                    if stop.load(Ordering::Relaxed) {
                        break;
                    }
                    let start = next.fetch_add(32, Ordering::Relaxed);
                    if start >= total_runs {
                        break;
                    }
                    for run in start..(start + 32).min(total_runs) {
                        let (ledger, entries) = run_one(spec, args.seed, run);
                        local.runs_done += 1;
                        local.stats.merge(&ledger.stats);
                        for pr in crate::probes::probes_of(&ledger) {
                            local.stats.probe(pr);
                        }
                        if ledger.truncated {
                            local.truncated_runs += 1;
                        }
                        let sigs = (spec.signature)(&ledger);
                        let nontrivial = !sigs.is_empty();
                        for sg in sigs {
                            local.sigs.insert(sg);
                        }
                        local.hists.insert(hist_sig(&ledger));
                        for st in &ledger.steps {
                            local.states.insert(hash_of(&(&st.snap.cred, st.snap.outstanding.len(), st.snap.timeouts.len(), st.snap.violated.len())));
                        }
                        if nontrivial && local.samples.len() < 3 {
                            let p = Plan { prop: spec.id.into(), seed: args.seed, run, key: String::new(), detail: String::new(), entries: entries.clone() };
                            local.samples.push((run, p.to_text()));
                        }
                        // determinism: re-execute a sample of runs, from the seed and from the recorded plan
                        if run % 64 == 0 {
                            let d0 = ledger_digest(&ledger);
                            // A difference is a harness error only if it matters: the code under test may itself be
                            // order-nondeterministic in ways no property forbids (e.g. iterating a randomly seeded hash
                            // map); two executions on which the oracle gives the same verdict are then merely counted.
                            // Executions whose verdicts differ: every one of them is an execution of the real code, so a
                            // violation seen in any of them is a violation (reported below; its replay file may then
                            // reproduce only sometimes, which the report says). The harness' own determinism is
                            // established separately and strictly by `selftest determinism` on the unchanged tree.
                            let (l2, e2) = run_one(spec, args.seed, run);
                            if ledger_digest(&l2) != d0 {
                                if violation_keys(spec, &ledger, &entries, &known0) == violation_keys(spec, &l2, &e2, &known0) {
                                    local.stats.probe("nondeterministic_reexecution_without_violation");
                                } else {
                                    local.stats.probe("nondeterministic_reexecution_with_different_verdict");
                                    for v in (spec.check)(&l2, &e2, spec) {
                                        if !local.found.contains_key(&v.key) {
                                            *local.found_count.entry(v.key.clone()).or_insert(0) += 1;
                                            local.found.insert(v.key.clone(), Found { run, violation: v, entries: e2.clone() });
                                        }
                                    }
                                }
                            }
                            let l3 = replay_entries(spec, &entries);
                            if ledger_digest(&l3) != d0 {
                                if violation_keys(spec, &ledger, &entries, &known0) == violation_keys(spec, &l3, &entries, &known0) {
                                    local.stats.probe("nondeterministic_reexecution_without_violation");
                                } else {
                                    local.stats.probe("nondeterministic_reexecution_with_different_verdict");
                                    for v in (spec.check)(&l3, &entries, spec) {
                                        if !local.found.contains_key(&v.key) {
                                            *local.found_count.entry(v.key.clone()).or_insert(0) += 1;
                                            local.found.insert(v.key.clone(), Found { run, violation: v, entries: entries.clone() });
                                        }
                                    }
                                }
                            }
                        }
                        let vs = (spec.check)(&ledger, &entries, spec);
                        for v in vs {
                            *local.found_count.entry(v.key.clone()).or_insert(0) += 1;
                            let better = match local.found.get(&v.key) {
                                Some(f) => run < f.run,
                                None => true,
                            };
                            if better {
                                local.found.insert(v.key.clone(), Found { run, violation: v, entries: entries.clone() });
                            }
                        }
                    }
                    if t0.elapsed().as_secs_f64() > args.wall_cap_s {
                        capped.store(true, Ordering::Relaxed);
                        stop.store(true, Ordering::Relaxed);
                    }
                }
                let mut m = merged.lock().unwrap();
                m.runs_done += local.runs_done;
                m.stats.merge(&local.stats);
                m.truncated_runs += local.truncated_runs;
                m.sigs.extend(local.sigs);
                m.hists.extend(local.hists);
                m.states.extend(local.states);
                m.samples.extend(local.samples);
                m.nondeterminism.extend(local.nondeterminism);
                for (k, c) in local.found_count {
                    *m.found_count.entry(k).or_insert(0) += c;
                }
                for (k, f) in local.found {
                    let better = match m.found.get(&k) {
                        Some(g) => f.run < g.run,
                        None => true,
                    };
                    if better {
                        m.found.insert(k, f);
                    }
                }
            });
        }
    });
    let mut m = merged.into_inner().unwrap();
    m.samples.sort();
    m.samples.truncate(3);

    // systematic part
    let mut extra_json: Vec<(String, Json)> = vec![];
    let mut extra_evals = 0u64;
    if let Some(f) = spec.extra {
        world::install_quiet_panic_hook();
        let r = f(spec, args);
        extra_evals = r.evaluations;
        m.sigs.extend(r.distinct);
        m.stats.merge(&r.stats);
        for (k, c) in &r.counters {
            extra_json.push((k.clone(), Json::Int(*c as i64)));
        }
        for s in r.samples.into_iter().take(2) {
            m.samples.push((u64::MAX, s));
        }
        for (v, entries) in r.violations {
            *m.found_count.entry(v.key.clone()).or_insert(0) += 1;
            if !m.found.contains_key(&v.key) {
                m.found.insert(v.key.clone(), Found { run: u64::MAX, violation: v, entries });
            }
        }
    }

    if !m.nondeterminism.is_empty() {
        for n in &m.nondeterminism {
            eprintln!("HARNESS ERROR: nondeterminism: {}", n);
        }
        return 2;
    }

    // classify, minimise, persist
    let known = load_known(&args.verif_dir);
    let mut exit = 0;
    let mut known_seen: Vec<String> = vec![];
    let mut violations_reported = 0;
    let replay_dir = format!("{}/replays", args.verif_dir);
    let _ = std::fs::create_dir_all(&replay_dir);
    for (key, f) in &m.found {
        if let Some(what) = known.lookup(spec.id, key) {
            println!("KNOWN-FINDING: property={} {} [{}; {} occurrence(s)]", spec.id, what, key, m.found_count.get(key).copied().unwrap_or(0));
            known_seen.push(key.clone());
            continue;
        }
        let mut min_entries = if f.run == u64::MAX && (f.entries.iter().all(|(k, _)| k != "cfg") || f.entries.iter().any(|(k, _)| k == "override")) {
            f.entries.clone()
        } else {
            minimise(spec, &f.entries, key, 1500)
        };
        if min_entries.is_empty() {
            min_entries = f.entries.clone();
        }
        let plan = Plan {
            prop: spec.id.into(),
            seed: args.seed,
            run: if f.run == u64::MAX { 0 } else { f.run },
            key: key.clone(),
            detail: format!("{}\nfirst seen in run {} at step {}; {} run(s) hit this key", f.violation.detail, f.run, f.violation.step, m.found_count.get(key).copied().unwrap_or(0)),
            entries: min_entries,
        };
        let path = format!("{}/{}-{}-{}-{}.replay", replay_dir, spec.id, key_hash(key), args.seed, plan.run);
        if std::fs::write(&path, plan.to_text()).is_err() {
            eprintln!("HARNESS ERROR: cannot write {}", path);
            return 2;
        }
        // the replay file must reproduce the violation in a fresh process
        // (a few attempts: exact on deterministic code; tolerant if the code under test is not)
        let confirmed = match std::env::current_exe() {
            Ok(exe) => (0..4).any(|_| {
                std::process::Command::new(&exe)
                    .args(["replay", &path, "--quiet"])
                    .status()
                    .map(|s| s.code() == Some(1))
                    .unwrap_or(false)
            }),
            Err(_) => false,
        };
        let mut flaky_note = false;
        if !confirmed {
            // Not reproduced. If the code under test itself behaves differently between executions of one and the
            // same plan (e.g. it iterates a randomly seeded hash set), the violation was still seen on a real
            // execution: keep the unminimised plan and say so. Otherwise the harness is at fault.
            let d: Vec<u64> = (0..8).map(|_| ledger_digest(&replay_entries(spec, &f.entries))).collect();
            let code_nondeterministic = d.iter().any(|x| *x != d[0]) || m.stats.probes.get("nondeterministic_reexecution_with_different_verdict").copied().unwrap_or(0) > 0 || m.stats.probes.get("nondeterministic_reexecution_without_violation").copied().unwrap_or(0) > 0;
            if !code_nondeterministic {
                eprintln!("HARNESS ERROR: replay of {} did not reproduce {}", path, key);
                return 2;
            }
            let plan = Plan { entries: f.entries.clone(), ..plan.clone() };
            if std::fs::write(&path, plan.to_text()).is_err() {
                eprintln!("HARNESS ERROR: cannot write {}", path);
                return 2;
            }
            flaky_note = true;
        }
        println!("VIOLATION property={} replay={}", spec.id, path);
        println!("  key: {}", key);
        println!("  {}", f.violation.detail);
        if flaky_note {
            println!("  note: the code under test behaves differently between executions of the same plan (its behaviour does not depend on its inputs alone), so this replay file reproduces the violation only in some executions; it is not minimised");
        }
        violations_reported += 1;
        exit = 1;
    }

    // probes that must have been reached
    let mut missing_probes: Vec<&str> = vec![];
    for p in spec.required_probes {
        if m.stats.probes.get(*p).copied().unwrap_or(0) == 0 {
            missing_probes.push(p);
        }
    }

    let wall = t0.elapsed().as_secs_f64();
    let evaluations = m.runs_done + extra_evals;
    let mut coverage: Vec<(String, Json)> = vec![
        ("evaluations".into(), Json::Int(evaluations as i64)),
        ("distinct_nontrivial".into(), Json::Int(m.sigs.len() as i64)),
        ("rule".into(), Json::s(spec.rule)),
        ("samples".into(), Json::Arr(m.samples.iter().map(|(_, s)| Json::s(s)).collect())),
        ("simulated_runs".into(), Json::Int(m.runs_done as i64)),
        ("runs_per_hour".into(), Json::Int((m.runs_done as f64 / wall.max(1e-6) * 3600.0) as i64)),
        ("seeds".into(), Json::s(&format!("VERIF_SEED={} x run indices 0..{} (each run's PRNG stream = mix(seed, property, run))", args.seed, m.runs_done))),
        ("simulated_seconds_total".into(), Json::Num(m.stats.sim_ns as f64 / 1e9)),
        ("steps_total".into(), Json::Int(m.stats.steps as i64)),
        ("distinct_hist_sigs".into(), Json::Int(m.hists.len() as i64)),
        ("distinct_client_state_tags".into(), Json::Int(m.states.len() as i64)),
        ("interleaving_measure".into(), Json::s("distinct_hist_sigs = number of distinct abstract histories: per step (call kind, fault kind, result kind, event kinds), times and bytes removed")),
        ("faults_fired".into(), Json::Obj(m.stats.faults.iter().map(|(k, v)| (k.clone(), Json::Int(*v as i64))).collect())),
        ("probes".into(), Json::Obj(m.stats.probes.iter().map(|(k, v)| (k.clone(), Json::Int(*v as i64))).collect())),
        ("completed_tx_ratio".into(), Json::Num(if m.stats.tx_started > 0 { m.stats.tx_completed as f64 / m.stats.tx_started as f64 } else { 0.0 })),
        ("transactions_started".into(), Json::Int(m.stats.tx_started as i64)),
        ("runs_hitting_step_cap".into(), Json::Int(m.truncated_runs as i64)),
        ("wall_cap_hit".into(), Json::Bool(capped.load(Ordering::Relaxed))),
        ("determinism_rechecks".into(), Json::Int((m.runs_done / 64 + 1) as i64)),
        ("known_findings_seen".into(), Json::Arr(known_seen.iter().map(|k| Json::s(k)).collect())),
        ("missing_required_probes".into(), Json::Arr(missing_probes.iter().map(|k| Json::s(k)).collect())),
        (
            "components".into(),
            Json::obj(vec![
                ("real", Json::strs(&["stun-agent: StunClient, StunPacketDecoder, credential mechanisms, timers, RTT estimator", "stun-rs: MessageDecoder/MessageEncoder, attribute codecs, get_input_text, MessageIntegrity*/Fingerprint validate (as reached by the client and the wire tap)"])),
                ("stub", Json::strs(&["application workload", "controller glue (event pump, single armed timer)", "network (datagram/stream)", "clock and timer service"])),
                ("reference", Json::strs(&["RefServer (independent codec + RFC 8489 9.1/9.2 behaviour, scripted personality)", "independent SHA-1/SHA-256/MD5/HMAC/CRC-32", "RFC 8489 s.14 admission automaton", "schedule / capacity / RFC 6298 arithmetic"])),
            ]),
        ),
    ];
    coverage.extend(extra_json);
    let ev = Json::obj(vec![
        ("property_id", Json::s(spec.id)),
        ("tier", Json::s(&args.tier)),
        ("seed", Json::Int(args.seed as i64)),
        ("level", Json::s(spec.level)),
        ("coverage", Json::Obj(coverage)),
        ("assumptions", Json::strs(spec.assumptions)),
        ("wall_s", Json::Num(wall)),
        ("violations", Json::Int(violations_reported)),
    ]);
    let evdir = format!("{}/evidence", args.verif_dir);
    let _ = std::fs::create_dir_all(&evdir);
    let evpath = format!("{}/{}.json", evdir, spec.id);
    if std::fs::write(&evpath, ev.to_string_pretty()).is_err() {
        eprintln!("HARNESS ERROR: cannot write {}", evpath);
        return 2;
    }
    if args.tier == "thorough" {
        // a copy that the next quick run does not overwrite
        let d = format!("{}/evidence-thorough", args.verif_dir);
        let _ = std::fs::create_dir_all(&d);
        let _ = std::fs::write(format!("{}/{}.json", d, spec.id), ev.to_string_pretty());
    }
    println!(
        "{}: {} runs ({} steps, {:.0} simulated s) in {:.1}s; distinct non-trivial {}; distinct histories {}; violations {}; known findings {}",
        spec.id,
        m.runs_done,
        m.stats.steps,
        m.stats.sim_ns as f64 / 1e9,
        wall,
        m.sigs.len(),
        m.hists.len(),
        violations_reported,
        known_seen.len()
    );
    if exit == 0 && !missing_probes.is_empty() && args.tier == "thorough" {
        eprintln!("HARNESS ERROR: required probes never reached: {:?}", missing_probes);
        return 2;
    }
    exit
}

/// Replays a plan file; exit code 1 (and a VIOLATION line) if its recorded key reproduces.
pub fn run_replay(spec: &PropSpec, plan: &Plan, path: &str, quiet: bool, show: bool) -> i32 {
    world::install_quiet_panic_hook();
    let l = replay_entries(spec, &plan.entries);
    if show {
        crate::show::print_ledger(&l);
    }
    let vs = (spec.check)(&l, &plan.entries, spec);
    let hit = vs.iter().find(|v| plan.key.is_empty() || v.key == plan.key);
    match hit {
        Some(v) => {
            if !quiet {
                println!("VIOLATION property={} replay={}", spec.id, path);
                println!("  key: {}", v.key);
                println!("  step {}: {}", v.step, v.detail);
            }
            1
        }
        None => {
            if !quiet {
                println!("NOT REPRODUCED: replay of {} raised no violation with key {:?} ({} other violation(s))", path, plan.key, vs.len());
                for v in &vs {
                    println!("  other: {} :: {}", v.key, v.detail);
                }
            }
            0
        }
    }
}
