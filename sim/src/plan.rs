//! Plans: the sparse list of decisions (deviations from the fault-free run plus the
//! application's actions) that, together with the code, determine one execution.
//! A `Source` either generates decisions from the PRNG (recording them) or replays a plan.

use crate::prng::Rng;
use std::collections::BTreeMap;

pub type Kv = Vec<(String, String)>;

pub fn parse_kv(s: &str) -> Kv {
    s.split_whitespace()
        .map(|tok| match tok.split_once('=') {
            Some((k, v)) => (k.to_string(), v.to_string()),
            None => (tok.to_string(), String::new()),
        })
        .collect()
}

pub fn kv_get<'a>(kv: &'a Kv, k: &str) -> Option<&'a str> {
    kv.iter().find(|(a, _)| a == k).map(|(_, v)| v.as_str())
}

pub fn kv_has(kv: &Kv, k: &str) -> bool {
    kv.iter().any(|(a, _)| a == k)
}

pub fn kv_u64(kv: &Kv, k: &str, default: u64) -> u64 {
    kv_get(kv, k).and_then(|v| v.parse().ok()).unwrap_or(default)
}

pub fn kv_i64(kv: &Kv, k: &str, default: i64) -> i64 {
    kv_get(kv, k).and_then(|v| v.parse().ok()).unwrap_or(default)
}

pub fn kv_str(kv: &Kv, k: &str, default: &str) -> String {
    kv_get(kv, k).unwrap_or(default).to_string()
}

#[derive(Clone, Debug, Default, PartialEq, Eq)]
pub struct Plan {
    pub prop: String,
    pub seed: u64,
    pub run: u64,
    /// violation key expected when replayed (empty = none recorded)
    pub key: String,
    pub detail: String,
    /// decisions in recording order
    pub entries: Vec<(String, String)>,
}

pub const MAGIC_LINE: &str = "rustun-sim-replay v1";

impl Plan {
    pub fn to_text(&self) -> String {
        let mut s = String::new();
        s.push_str(MAGIC_LINE);
        s.push('\n');
        s.push_str(&format!("property {}\n", self.prop));
        s.push_str(&format!("seed {} run {}\n", self.seed, self.run));
        if !self.key.is_empty() {
            s.push_str(&format!("key {}\n", self.key));
        }
        if !self.detail.is_empty() {
            for l in self.detail.lines() {
                s.push_str(&format!("# {}\n", l));
            }
        }
        for (k, v) in &self.entries {
            s.push_str(&format!("{} {}\n", k, v));
        }
        s
    }

    pub fn from_text(t: &str) -> Result<Plan, String> {
        let mut lines = t.lines();
        if lines.next().map(|l| l.trim()) != Some(MAGIC_LINE) {
            return Err("not a rustun-sim replay file".into());
        }
        let mut p = Plan::default();
        for l in lines {
            let l = l.trim_end();
            if l.is_empty() || l.starts_with('#') {
                continue;
            }
            let (k, v) = match l.split_once(' ') {
                Some((k, v)) => (k, v),
                None => (l, ""),
            };
            match k {
                "property" => p.prop = v.to_string(),
                "seed" => {
                    let kv: Vec<&str> = v.split_whitespace().collect();
                    if kv.len() != 3 || kv[1] != "run" {
                        return Err(format!("bad seed line: {l}"));
                    }
                    p.seed = kv[0].parse().map_err(|_| "bad seed")?;
                    p.run = kv[2].parse().map_err(|_| "bad run")?;
                }
                "key" => p.key = v.to_string(),
                _ => p.entries.push((k.to_string(), v.to_string())),
            }
        }
        if p.prop.is_empty() {
            return Err("replay file without property".into());
        }
        Ok(p)
    }
}

enum Mode {
    Gen(Rng),
    Replay(BTreeMap<String, String>),
}

pub struct Source {
    mode: Mode,
    /// decisions that deviated from the default (gen) / that were consulted and present (replay)
    pub recorded: Vec<(String, String)>,
}

impl Source {
    pub fn generate(seed: u64) -> Self {
        Source {
            mode: Mode::Gen(Rng::new(seed)),
            recorded: Vec::new(),
        }
    }

    pub fn replay(entries: &[(String, String)]) -> Self {
        let mut m = BTreeMap::new();
        for (k, v) in entries {
            m.insert(k.clone(), v.clone());
        }
        Source {
            mode: Mode::Replay(m),
            recorded: Vec::new(),
        }
    }

    pub fn is_gen(&self) -> bool {
        matches!(self.mode, Mode::Gen(_))
    }

    /// One decision. In generate mode `f` draws it from the PRNG (`None` = the default, not
    /// recorded); in replay mode the plan is consulted (`None` when the key is absent).
    pub fn decide(&mut self, key: &str, f: impl FnOnce(&mut Rng) -> Option<String>) -> Option<String> {
        match &mut self.mode {
            Mode::Gen(rng) => {
                let v = f(rng);
                if let Some(v) = &v {
                    self.recorded.push((key.to_string(), v.clone()));
                }
                v
            }
            Mode::Replay(m) => {
                let v = m.get(key).cloned();
                if let Some(v) = &v {
                    self.recorded.push((key.to_string(), v.clone()));
                }
                v
            }
        }
    }
}
