//! Reference STUN server: independent codec + RFC 8489 section 9.1 / 9.2 behaviour and a
//! scripted "personality" per request (`srv#n` decisions). It never shares code with stun-rs.

use crate::plan::{kv_get, kv_has, kv_u64, Kv};
use crate::wire::*;

#[derive(Clone, Copy, Debug, PartialEq, Eq)]
pub enum Alg {
    Mi,
    Sha,
}

#[derive(Clone, Debug, PartialEq, Eq)]
pub enum Mech {
    None,
    ShortTerm(Option<Alg>),
    LongTerm,
}

/// Which PASSWORD-ALGORITHMS list a long-term server offers.
pub fn algs_list(code: &str) -> Option<Vec<(u16, Vec<u8>)>> {
    match code {
        "none" => None,
        "md5" => Some(vec![(ALG_MD5, vec![])]),
        "sha" => Some(vec![(ALG_SHA256, vec![])]),
        "md5sha" => Some(vec![(ALG_MD5, vec![]), (ALG_SHA256, vec![])]),
        "shamd5" => Some(vec![(ALG_SHA256, vec![]), (ALG_MD5, vec![])]),
        "unsup" => Some(vec![(0x0007, vec![]), (0x0099, vec![1, 2, 3])]),
        "unsupsha" => Some(vec![(0x0007, vec![9]), (ALG_SHA256, vec![])]),
        "empty" => Some(vec![]),
        // parameters whose length is not a multiple of four (inner padding)
        "md5p1" => Some(vec![(ALG_MD5, vec![0xAA])]),
        "shap2" => Some(vec![(ALG_SHA256, vec![1, 2])]),
        "p3sha" => Some(vec![(0x0007, vec![1, 2, 3]), (ALG_SHA256, vec![])]),
        "md5p5sha" => Some(vec![(ALG_MD5, vec![1, 2, 3, 4, 5]), (ALG_SHA256, vec![])]),
        // three entries, an unassigned algorithm with an odd-sized parameter first
        "p2md5sha" => Some(vec![(0x0005, vec![1, 2]), (ALG_MD5, vec![]), (ALG_SHA256, vec![])]),
        _ => None,
    }
}

#[derive(Clone, Debug)]
pub struct ServerCfg {
    pub mech: Mech,
    pub user: String,
    pub password: String,
    pub realm: String,
    pub cookie: bool,
    pub anon: bool,
    pub algs: String,
    pub legacy: bool,
    pub lenient: bool,
}

#[derive(Clone, Debug)]
pub struct RefServer {
    pub cfg: ServerCfg,
    nonce_ctr: u32,
    pub cur_nonce: Option<String>,
    /// session parameters of the challenge in force (may differ from cfg after overrides)
    pub ses_algs: String,
    pub ses_anon: bool,
    pub ses_cookie: bool,
    pub ses_realm: String,
    /// reason phrase for the next error body (hostile personality: very long phrases with multi-byte characters)
    pub reason: Option<String>,
}

#[derive(Clone, Debug)]
pub struct Reply {
    pub bytes: Vec<u8>,
    pub what: String,
    pub think_ns: u64,
}

/// Strings for the hostile personality (C03): multi-byte UTF-8 and quoting characters
/// around the nonce-cookie offsets, over-long values, embedded NULs.
pub fn hostile_string(k: u64) -> Vec<u8> {
    let two = "\u{c3}\u{a9}"; // two 2-byte chars (4 bytes)
    let table: Vec<Vec<u8>> = vec![
        format!("obMatJos2a{}", two).into_bytes(),
        format!("obMatJos2{}AA", "\u{e9}").into_bytes(),
        format!("obMatJos2AA{}", "\u{20ac}").into_bytes(),
        format!("obMatJos{}AAAAxx", "\u{e9}").into_bytes(),
        "obMatJos2\"\\\"AA".as_bytes().to_vec(),
        "obMatJos2====".as_bytes().to_vec(),
        "obMatJos2A".as_bytes().to_vec(),
        "obMatJos2".as_bytes().to_vec(),
        "obMatJos2AAA\u{0}".as_bytes().to_vec(),
        vec![0xff, 0xfe, 0xfd],
        vec![b'o', b'b', b'M', b'a', b't', b'J', b'o', b's', b'2', 0xc3, 0xa9, 0xc3, 0xa9, 0xc3],
        "\u{1F600}\u{1F600}\u{1F600}\u{1F600}".as_bytes().to_vec(),
        vec![b'x'; 763],
        vec![b'y'; 764],
        vec![b'n'; 509],
        vec![b'n'; 510],
        vec![b'n'; 600],
        Vec::new(),
        "re\u{301}alm\u{ad}\u{2168}".as_bytes().to_vec(),
        "\"quoted\\\"".as_bytes().to_vec(),
        format!("obMatJos2{}", "\u{c3}\u{a9}\u{c3}").into_bytes(),
        "obMatJos2\u{7f}\u{80}AA".as_bytes().to_vec(),
        "obMatJos2wAAA\u{e9}".as_bytes().to_vec(),
        // text shaped like UTF-8 encoded twice, ending in characters that are white space
        "Universit\u{c3}\u{a0}".as_bytes().to_vec(),
        "obMatJos2AAAAx\u{c2}\u{85}".as_bytes().to_vec(),
        "\u{c2}\u{a0}lead".as_bytes().to_vec(),
        "mid\u{c3}\u{a0}dle\u{c2}\u{85}".as_bytes().to_vec(),
    ];
    let n = table.len() as u64;
    if k < n {
        table[k as usize].clone()
    } else {
        // cookie prefix with a 2-byte character sliding over offsets 0..16
        let off = ((k - n) % 17) as usize;
        let mut s: Vec<u8> = b"obMatJos2AAAAAAAAAA".to_vec();
        let off = off.min(s.len());
        s.splice(off..off, [0xc3u8, 0xa9u8]);
        s
    }
}

impl RefServer {
    pub fn new(cfg: ServerCfg) -> Self {
        RefServer {
            ses_algs: cfg.algs.clone(),
            ses_anon: cfg.anon,
            ses_cookie: cfg.cookie,
            ses_realm: cfg.realm.clone(),
            cfg,
            nonce_ctr: 0,
            cur_nonce: None,
            reason: None,
        }
    }

    /// Forget the session negotiated so far: the next request is challenged with the configured offer.
    pub fn reset_session(&mut self) {
        self.ses_algs = self.cfg.algs.clone();
        self.ses_anon = self.cfg.anon;
        self.ses_cookie = self.cfg.cookie;
        self.ses_realm = self.cfg.realm.clone();
        self.cur_nonce = None;
    }

    fn fresh_nonce(&mut self) -> String {
        self.nonce_ctr += 1;
        let rest = format!("n{:04}q", self.nonce_ctr);
        let offered = algs_list(&self.ses_algs).is_some();
        // a server that offers algorithms or asks for anonymity must say so in the nonce cookie
        if self.ses_cookie || offered || self.ses_anon {
            // every other nonce also sets some of the 22 feature bits that are not assigned yet
            let reserved = if self.nonce_ctr % 2 == 0 { (self.nonce_ctr as u32).wrapping_mul(0x9E37_79B1) >> 10 } else { 0 };
            nonce_cookie_reserved(offered, self.ses_anon, reserved, &rest)
        } else {
            format!("plain-{}", rest)
        }
    }

    pub fn short_term_key(&self) -> Vec<u8> {
        self.cfg.password.as_bytes().to_vec()
    }

    /// Key the long-term server uses for a request: PASSWORD-ALGORITHM of the request if present;
    /// otherwise MD5 per the RFC, or (lenient mode, algorithms offered) the algorithm the client
    /// library is known to pick.
    fn lt_key_for(&self, req: &Parsed, lenient: bool) -> Vec<u8> {
        let alg = match req.find(A_PASSWORD_ALGORITHM).and_then(|a| password_algorithms_parse(&a.value)) {
            Some(v) if !v.is_empty() => v[0].0,
            _ => {
                if lenient {
                    match algs_list(&self.ses_algs) {
                        Some(list) if list.iter().any(|(a, _)| *a == ALG_SHA256) => ALG_SHA256,
                        _ => ALG_MD5,
                    }
                } else {
                    ALG_MD5
                }
            }
        };
        long_term_key(alg, &self.cfg.user, &self.ses_realm, &self.cfg.password)
    }

    fn lt_kind(&self) -> Alg {
        if algs_list(&self.ses_algs).is_some() {
            Alg::Sha
        } else {
            Alg::Mi
        }
    }

    /// Handles one datagram arriving at the server. `spec` is the personality decision.
    pub fn on_datagram(&mut self, bytes: &[u8], spec: &Kv) -> Vec<Reply> {
        let Ok(req) = parse(bytes) else {
            return vec![];
        };
        if req.class != C_REQUEST {
            return vec![]; // indications are absorbed
        }
        if kv_has(spec, "silent") {
            return vec![];
        }
        let think = kv_u64(spec, "think", 0);
        let ndup = kv_u64(spec, "dup", 0);
        let (bytes, what) = self.build_response(&req, bytes, spec);
        let mut out = Vec::new();
        for _ in 0..=ndup {
            out.push(Reply {
                bytes: bytes.clone(),
                what: what.clone(),
                think_ns: think,
            });
        }
        out
    }

    fn build_response(&mut self, req: &Parsed, _raw: &[u8], spec: &Kv) -> (Vec<u8>, String) {
        let want_fp = match kv_get(spec, "fp") {
            Some("none") => false,
            Some("force") | Some("bad") => true,
            _ => req.find(A_FINGERPRINT).is_some(),
        };
        let code = kv_get(spec, "code").and_then(|c| c.parse::<u16>().ok());
        // reason=<n>:<shift>:<kind>: a phrase of about n bytes with one multi-byte character starting at byte `shift`
        self.reason = kv_get(spec, "reason").map(|r| {
            let parts: Vec<usize> = r.split(':').filter_map(|x| x.parse().ok()).collect();
            let (n, shift, kind) = (parts.first().copied().unwrap_or(10), parts.get(1).copied().unwrap_or(0), parts.get(2).copied().unwrap_or(0));
            let ch = ["\u{e9}", "\u{20ac}", "\u{1F600}"][kind % 3];
            let mut t = String::new();
            while t.len() < shift.min(n) {
                t.push('a');
            }
            t.push_str(ch);
            while t.len() < n {
                t.push('b');
            }
            t
        });
        let mut what = String::new();
        let mut b;
        // integrity: (kind(s), key)
        let mut kinds: Vec<Alg> = vec![];
        let mut key: Vec<u8> = vec![];
        match self.cfg.mech.clone() {
            Mech::None => {
                b = self.body(req, code, &mut what);
            }
            Mech::ShortTerm(_) => {
                b = self.body(req, code, &mut what);
                key = self.short_term_key();
                let auto = if req.find(A_MI256).is_some() && !self.cfg.legacy {
                    Some(Alg::Sha)
                } else if req.find(A_MI).is_some() {
                    Some(Alg::Mi)
                } else if req.find(A_MI256).is_some() {
                    Some(Alg::Sha)
                } else {
                    None
                };
                kinds = auto.into_iter().collect();
            }
            Mech::LongTerm => {
                let forced = kv_get(spec, "lt").unwrap_or("auto");
                let has_user = req.find(A_USERNAME).is_some() || req.find(A_USERHASH).is_some();
                let has_rn = req.find(A_REALM).is_some() && req.find(A_NONCE).is_some();
                let lenient = self.cfg.lenient;
                let action = match forced {
                    "401" => "401",
                    "438" => "438",
                    "accept" => "accept",
                    _ => {
                        if !has_user || !has_rn || self.cur_nonce.is_none() {
                            "401"
                        } else if req.string(A_NONCE) != self.cur_nonce {
                            "438"
                        } else {
                            let k = self.lt_key_for(req, lenient);
                            let kind = self.lt_kind();
                            let t = if kind == Alg::Sha { A_MI256 } else { A_MI };
                            match verify_integrity(_raw, req, t, &k) {
                                Verdict::Good => "accept",
                                Verdict::Bad => "401",
                                Verdict::Absent => {
                                    if lenient {
                                        "accept"
                                    } else {
                                        "401"
                                    }
                                }
                            }
                        }
                    }
                };
                match action {
                    "401" => {
                        // new challenge; per-request overrides of the offer
                        if let Some(a) = kv_get(spec, "algs") {
                            self.ses_algs = a.to_string();
                        }
                        if let Some(a) = kv_get(spec, "anon") {
                            self.ses_anon = a == "1";
                        }
                        if let Some(a) = kv_get(spec, "nonce") {
                            self.ses_cookie = a == "cookie";
                        }
                        if let Some(r) = kv_get(spec, "realm") {
                            self.ses_realm = r.to_string();
                        }
                        // a new nonce is issued when the server has none, when the offer changes or when the
                        // personality forces a new challenge; otherwise (retransmissions of an unauthenticated
                        // request, a request with bad credentials) the challenge in force is repeated
                        let offer_changed = ["algs", "anon", "nonce", "realm"].iter().any(|k| kv_get(spec, k).is_some());
                        let nonce = match (&self.cur_nonce, forced == "401" || offer_changed) {
                            (Some(n), false) => n.clone(),
                            _ => self.fresh_nonce(),
                        };
                        self.cur_nonce = Some(nonce.clone());
                        b = Builder::new(C_ERROR, req.method, &req.txid);
                        if !kv_has(spec, "noerr") {
                            b.push_attr(A_ERROR_CODE, &error_code_value(401, "Unauthenticated"));
                        }
                        self.push_realm_nonce(&mut b, spec, &nonce);
                        if let Some(list) = algs_list(&self.ses_algs) {
                            if !kv_has(spec, "noalgs") {
                                b.push_attr(A_PASSWORD_ALGORITHMS, &password_algorithms_value(&list));
                            }
                        }
                        what.push_str("401");
                        // a 401 normally carries no integrity; `integ=` may force one
                        if kv_get(spec, "integ").is_some() {
                            key = self.lt_key_for(req, true);
                            kinds = vec![self.lt_kind()];
                        }
                    }
                    "438" => {
                        // the nonce is rotated only when the personality expires it; a request that merely
                        // carries a stale nonce is told the nonce currently in force
                        // the new nonce may carry another "username anonymity" bit than the one it replaces
                        let mut anon_changed = false;
                        if let Some(a) = kv_get(spec, "anon") {
                            anon_changed = self.ses_anon != (a == "1");
                            self.ses_anon = a == "1";
                        }
                        let nonce = match (&self.cur_nonce, forced == "438" || anon_changed) {
                            (Some(n), false) => n.clone(),
                            _ => self.fresh_nonce(),
                        };
                        self.cur_nonce = Some(nonce.clone());
                        b = Builder::new(C_ERROR, req.method, &req.txid);
                        if !kv_has(spec, "noerr") {
                            b.push_attr(A_ERROR_CODE, &error_code_value(438, "Stale Nonce"));
                        }
                        self.push_realm_nonce(&mut b, spec, &nonce);
                        // RFC 8489 9.2.4: a 438 carries NONCE, REALM and PASSWORD-ALGORITHMS
                        if let Some(list) = algs_list(&self.ses_algs) {
                            if !kv_has(spec, "noalgs") {
                                b.push_attr(A_PASSWORD_ALGORITHMS, &password_algorithms_value(&list));
                            }
                        }
                        what.push_str("438");
                        if kv_get(spec, "integ").is_some() {
                            key = self.lt_key_for(req, true);
                            kinds = vec![self.lt_kind()];
                        }
                    }
                    _ => {
                        b = self.body(req, code, &mut what);
                        key = self.lt_key_for(req, true);
                        kinds = vec![self.lt_kind()];
                    }
                }
            }
        }
        if let Some(pb) = kv_get(spec, "pad").and_then(|x| x.parse::<u8>().ok()) {
            // a server that fills padding with something else than zero: legal, and covered by its MAC / CRC.
            // attributes pushed so far were padded with zero: rewrite their padding
            b.pad = pb;
            if let Ok(p0) = parse(&b.buf) {
                for a in &p0.attrs {
                    for i in (a.off + 4 + a.value.len())..a.end().min(b.buf.len()) {
                        b.buf[i] = pb;
                    }
                }
            }
        }
        if let Some(seed) = kv_get(spec, "more").and_then(|x| x.parse::<u64>().ok()) {
            self.push_more(&mut b, req, seed, &mut what);
        }
        // integrity override
        let integ = kv_get(spec, "integ").unwrap_or("auto");
        let mut corrupt_mac = false;
        match integ {
            "none" => kinds.clear(),
            "mi" => kinds = vec![Alg::Mi],
            "sha" => kinds = vec![Alg::Sha],
            "both" => kinds = vec![Alg::Mi, Alg::Sha],
            "other" => {
                kinds = kinds
                    .iter()
                    .map(|k| if *k == Alg::Mi { Alg::Sha } else { Alg::Mi })
                    .collect();
                if kinds.is_empty() {
                    kinds = vec![Alg::Mi];
                }
            }
            "bad" => corrupt_mac = true,
            "wrongkey" => {
                // key derived from a password that differs in one character
                let mut pw = self.cfg.password.clone().into_bytes();
                if let Some(l) = pw.last_mut() {
                    *l = if *l == b'x' { b'y' } else { b'x' };
                } else {
                    pw.push(b'x');
                }
                let pw = String::from_utf8_lossy(&pw).to_string();
                key = match self.cfg.mech {
                    Mech::LongTerm => {
                        let alg = if key.len() == 32 { ALG_SHA256 } else { ALG_MD5 };
                        long_term_key(alg, &self.cfg.user, &self.ses_realm, &pw)
                    }
                    _ => pw.into_bytes(),
                };
            }
            _ => {}
        }
        if key.is_empty() && !kinds.is_empty() {
            // no credentials configured on the server: use an arbitrary key
            key = b"server-has-no-key".to_vec();
        }
        let mut mac_ranges: Vec<(usize, usize)> = vec![];
        // canonical order: MI then SHA256
        if kinds.contains(&Alg::Mi) {
            let s = b.buf.len() + 4;
            b.push_mi(&key);
            mac_ranges.push((s, s + 20));
            what.push_str("+mi");
        }
        if kinds.contains(&Alg::Sha) {
            let s = b.buf.len() + 4;
            b.push_mi256(&key);
            mac_ranges.push((s, s + 32));
            what.push_str("+sha");
        }
        if integ != "auto" {
            what.push_str(&format!("[integ={}]", integ));
        }
        if corrupt_mac {
            for (s, _e) in &mac_ranges {
                b.buf[*s + 3] ^= 0x10;
            }
        }
        if want_fp {
            b.push_fingerprint();
            what.push_str("+fp");
            if kv_get(spec, "fp") == Some("bad") {
                let n = b.buf.len();
                b.buf[n - 1] ^= 0x01;
                what.push_str("[fp=bad]");
            }
        }
        if let Some(extra) = kv_get(spec, "extra") {
            splice_suffix(&mut b, extra, &key);
            what.push_str(&format!("[extra={}]", extra));
        }
        (b.finish(), what)
    }

    fn push_realm_nonce(&self, b: &mut Builder, spec: &Kv, nonce: &str) {
        let hostile = kv_get(spec, "hostile").and_then(|h| h.parse::<u64>().ok());
        if !kv_has(spec, "norealm") {
            match (hostile, kv_has(spec, "hrealm")) {
                (Some(h), true) => b.push_attr(A_REALM, &hostile_string(h)),
                _ => b.push_attr(A_REALM, self.ses_realm.as_bytes()),
            }
        }
        if !kv_has(spec, "nononce") {
            match (hostile, kv_has(spec, "hrealm")) {
                (Some(h), false) => b.push_attr(A_NONCE, &hostile_string(h)),
                _ => b.push_attr(A_NONCE, nonce.as_bytes()),
            }
        }
    }

    fn body(&self, req: &Parsed, code: Option<u16>, what: &mut String) -> Builder {
        self.body_plain(req, code, what)
    }

    /// Appends 1-4 further valid attributes of other kinds (before any integrity / fingerprint tail).
    fn push_more(&self, b: &mut Builder, req: &Parsed, seed: u64, what: &mut String) {
        let mut r = crate::prng::Rng::new(seed);
        let n = r.range(1, 4);
        let usable = usable_extra_kinds();
        for _ in 0..n {
            let k = r.below(N_EXTRA_KINDS);
            let (t, v) = extra_attr(k, &mut r, &req.txid);
            if !usable.contains(&(k % N_EXTRA_KINDS)) {
                continue;
            }
            // an ERROR-CODE only makes sense in an error response; a second one is left out
            if t == A_ERROR_CODE {
                continue;
            }
            b.push_attr(t, &v);
        }
        what.push_str("+more");
    }

    fn body_plain(&self, req: &Parsed, code: Option<u16>, what: &mut String) -> Builder {
        match code {
            Some(c) => {
                let mut b = Builder::new(C_ERROR, req.method, &req.txid);
                b.push_attr(A_ERROR_CODE, &error_code_value(c, &self.reason.clone().unwrap_or_else(|| "Error".to_string())));
                what.push_str(&format!("err{}", c));
                b
            }
            None => {
                let mut b = Builder::new(C_SUCCESS, req.method, &req.txid);
                b.push_attr(A_XOR_MAPPED_ADDRESS, &xor_mapped_v4(40000, [192, 0, 2, 33]));
                b.push_attr(A_SOFTWARE, b"refserver");
                what.push_str("ok");
                b
            }
        }
    }

    /// Builds an unsolicited indication (`integ=` as for responses; `fp=` force/none/bad).
    pub fn build_indication(&self, txid: &[u8; 12], spec: &Kv, alg_hint: Option<Alg>) -> Vec<u8> {
        let mut b = Builder::new(C_INDICATION, 1, txid);
        b.push_attr(A_SOFTWARE, b"refserver-ind");
        let mut kinds: Vec<Alg> = match (&self.cfg.mech, kv_get(spec, "integ")) {
            (_, Some("none")) => vec![],
            (_, Some("mi")) => vec![Alg::Mi],
            (_, Some("sha")) => vec![Alg::Sha],
            (_, Some("both")) => vec![Alg::Mi, Alg::Sha],
            (Mech::ShortTerm(_), Some("other")) => {
                vec![if alg_hint == Some(Alg::Mi) { Alg::Sha } else { Alg::Mi }]
            }
            (Mech::ShortTerm(_), _) => vec![alg_hint.unwrap_or(Alg::Sha)],
            _ => vec![],
        };
        let mut key = self.short_term_key();
        if kv_get(spec, "integ") == Some("wrongkey") {
            key.push(b'x');
            if kinds.is_empty() {
                kinds = vec![alg_hint.unwrap_or(Alg::Sha)];
            }
        }
        let mut macs = vec![];
        if kinds.contains(&Alg::Mi) {
            macs.push(b.buf.len() + 4);
            b.push_mi(&key);
        }
        if kinds.contains(&Alg::Sha) {
            macs.push(b.buf.len() + 4);
            b.push_mi256(&key);
        }
        if kv_get(spec, "integ") == Some("bad") {
            for s in macs {
                b.buf[s + 5] ^= 0x02;
            }
        }
        match kv_get(spec, "fp") {
            Some("none") => {}
            Some("bad") => {
                b.push_fingerprint();
                let n = b.buf.len();
                b.buf[n - 2] ^= 0x40;
            }
            Some("force") => b.push_fingerprint(),
            _ => {}
        }
        if let Some(extra) = kv_get(spec, "extra") {
            splice_suffix(&mut b, extra, &key);
        }
        b.finish()
    }
}

/// Appends attributes after the tail of a finished message (on-path splice fault).
/// Tokens: a = ordinary (SOFTWARE), m/M = MI with right/wrong MAC, s/S = MI-SHA256 right/wrong,
/// f/F = FINGERPRINT right/wrong, u = unknown comprehension-optional attribute.
pub fn splice_suffix(b: &mut Builder, spec: &str, key: &[u8]) {
    for c in spec.chars() {
        match c {
            'a' => b.push_attr(A_SOFTWARE, b"spliced"),
            'u' => b.push_attr(0xC123, &[1, 2, 3, 4, 5]),
            'm' => b.push_mi(key),
            'M' => {
                b.push_mi(key);
                let n = b.buf.len();
                b.buf[n - 7] ^= 0x80;
            }
            's' => b.push_mi256(key),
            'S' => {
                b.push_mi256(key);
                let n = b.buf.len();
                b.buf[n - 9] ^= 0x08;
            }
            // RFC-valid values that this library's value decoders refuse (a MESSAGE-INTEGRITY-SHA256 truncated to 16
            // bytes, RFC 8489 14.6; a REALM with a non-ASCII character): where the ordering rule does not admit them
            // they must be skipped like anything else
            't' => b.push_attr(A_MI256, &[0x5a; 16]),
            'r' => b.push_attr(A_REALM, "caf\u{e9}.example".as_bytes()),
            'f' => b.push_fingerprint(),
            'F' => {
                b.push_fingerprint();
                let n = b.buf.len();
                b.buf[n - 3] ^= 0x20;
            }
            _ => {}
        }
    }
}

/// Further attribute kinds (TURN, ICE, NAT-discovery, mobility) encoded from their RFCs, so that structure
/// aware faults also reach those decoders. `k` selects the kind, `r` provides the values.
pub const N_EXTRA_KINDS: u64 = 30;

pub fn extra_attr(k: u64, r: &mut crate::prng::Rng, txid: &[u8; 12]) -> (u16, Vec<u8>) {
    let addr = |r: &mut crate::prng::Rng, xor: bool| -> Vec<u8> {
        let port = r.below(65536) as u16;
        if r.chance(1, 2) {
            let ip = r.bytes(4);
            let mut v = vec![0u8, 1];
            let p = if xor { port ^ 0x2112 } else { port };
            v.extend_from_slice(&p.to_be_bytes());
            for i in 0..4 {
                v.push(if xor { ip[i] ^ MAGIC[i] } else { ip[i] });
            }
            v
        } else {
            let ip = r.bytes(16);
            let mut v = vec![0u8, 2];
            let p = if xor { port ^ 0x2112 } else { port };
            v.extend_from_slice(&p.to_be_bytes());
            let mut key = MAGIC.to_vec();
            key.extend_from_slice(txid);
            for i in 0..16 {
                v.push(if xor { ip[i] ^ key[i] } else { ip[i] });
            }
            v
        }
    };
    match k % N_EXTRA_KINDS {
        0 => (0x0001, addr(r, false)),
        1 => (0x0003, (*r.pick(&[0u32, 2, 4, 6])).to_be_bytes().to_vec()),
        2 => {
            let n = r.range(0, 5);
            let mut v = vec![];
            for _ in 0..n {
                v.extend_from_slice(&(r.below(65536) as u16).to_be_bytes());
            }
            (0x000A, v)
        }
        3 => {
            let mut v = (0x4000u16 + r.below(0x3fff) as u16).to_be_bytes().to_vec();
            v.extend_from_slice(&[0, 0]);
            (0x000C, v)
        }
        4 => (0x000D, (r.below(1 << 32) as u32).to_be_bytes().to_vec()),
        5 => (0x0012, addr(r, true)),
        6 => {
            let n = r.below(40) as usize;
            (0x0013, r.bytes(n))
        }
        7 => (0x0016, addr(r, true)),
        8 => (0x0017, vec![*r.pick(&[1u8, 2]), 0, 0, 0]),
        9 => (0x0018, vec![*r.pick(&[0x80u8, 0x00])]),
        10 => (0x0019, vec![*r.pick(&[17u8, 6]), 0, 0, 0]),
        11 => (0x001A, vec![]),
        12 => (0x0022, r.bytes(8)),
        13 => (0x0024, (r.below(1 << 32) as u32).to_be_bytes().to_vec()),
        14 => (0x0025, vec![]),
        15 => {
            let n = r.below(24) as usize;
            (0x0026, vec![0u8; n])
        }
        16 => (0x0027, (r.below(65536) as u16).to_be_bytes().to_vec()),
        17 => (0x8000, vec![*r.pick(&[1u8, 2]), 0, 0, 0]),
        18 => {
            let mut v = vec![*r.pick(&[1u8, 2]), 0, 4, 40];
            v.extend_from_slice(b"Address Family not Supported");
            (0x8001, v)
        }
        19 => {
            let t = r.below(128) as u16;
            let c = r.below(512) as u16;
            let mut v = vec![0u8, 0];
            v.extend_from_slice(&((t << 9) | c).to_be_bytes());
            v.extend_from_slice(&r.bytes(4));
            (0x8004, v)
        }
        20 => (0x8023, addr(r, false)),
        21 => (0x8029, r.next_u64().to_be_bytes().to_vec()),
        22 => (0x802A, r.next_u64().to_be_bytes().to_vec()),
        23 => (0x802b, addr(r, false)),
        24 => (0x802c, addr(r, false)),
        25 => {
            let n = r.below(30) as usize;
            (0x8030, r.bytes(n))
        }
        26 => (0x0020, addr(r, true)),
        27 => {
            // comprehension-optional unknown attribute
            let n = r.below(12) as usize;
            (0xC000 + r.below(0x100) as u16, r.bytes(n))
        }
        28 => {
            let n = r.below(20) as usize;
            (A_SOFTWARE, (0..n).map(|i| b'A' + (i % 26) as u8).collect())
        }
        _ => (0x0009, error_code_value(*r.pick(&[300u16, 420, 487, 508, 699]), "reason")),
    }
}

/// One message carrying only the extra attribute (kind k, variant v) — used for cross-validation.
pub fn extra_probe_message(k: u64, variant: u64) -> Vec<u8> {
    let txid = [7u8; 12];
    let mut r = crate::prng::Rng::new(k * 100 + variant);
    let (t, v) = extra_attr(k, &mut r, &txid);
    let mut b = Builder::new(C_SUCCESS, 1, &txid);
    b.push_attr(t, &v);
    b.finish()
}

pub const N_EXTRA_VARIANTS: u64 = 6;

/// Cross-validation of the table against the real decoder: the kinds whose probe messages the library
/// accepts are the ones the reference server uses. A kind the library does not accept is *not* a harness
/// error (the library under test may be the one at fault; a panic is reported by the C03 check): it is
/// simply left out, so that the other oracles' "valid server message" assumption stays true.
pub fn usable_extra_kinds() -> &'static Vec<u64> {
    use std::sync::OnceLock;
    static K: OnceLock<Vec<u64>> = OnceLock::new();
    K.get_or_init(|| {
        (0..N_EXTRA_KINDS)
            .filter(|k| (0..N_EXTRA_VARIANTS).all(|v| crate::libtap::decodes(&extra_probe_message(*k, v))))
            .collect()
    })
}
