//! LibVerifier: thin wrappers around the *real* stun-rs decoder and validators, used by the wire
//! tap (all 16 decoder option combinations) and as the classifier "does the library decode this".

use std::panic::{catch_unwind, AssertUnwindSafe};
use stun_rs::attributes::stun::{Fingerprint, MessageIntegrity, MessageIntegritySha256};
use stun_rs::{
    get_input_text, Algorithm, AlgorithmId, DecoderContextBuilder, HMACKey, MessageClass, MessageDecoder,
    MessageDecoderBuilder, StunMessage,
};

#[derive(Clone, Copy, Debug, PartialEq, Eq, Hash)]
pub struct Opts {
    pub key: bool,
    pub validation: bool,
    pub unknown_data: bool,
    pub not_ignore: bool,
}

pub fn all_opts() -> Vec<Opts> {
    let mut v = vec![];
    for i in 0..16u8 {
        v.push(Opts { key: i & 1 != 0, validation: i & 2 != 0, unknown_data: i & 4 != 0, not_ignore: i & 8 != 0 });
    }
    v
}

pub fn decoder(o: Opts, key: Option<&HMACKey>) -> MessageDecoder {
    let mut b = DecoderContextBuilder::default();
    if o.key {
        if let Some(k) = key {
            b = b.with_key(k.clone());
        }
    }
    if o.validation {
        b = b.with_validation();
    }
    if o.unknown_data {
        b = b.with_unknown_data();
    }
    if o.not_ignore {
        b = b.not_ignore();
    }
    MessageDecoderBuilder::default().with_context(b.build()).build()
}

#[derive(Clone, Debug, PartialEq, Eq, Hash)]
pub struct Decoded {
    pub class: u8,
    pub method: u16,
    pub txid: [u8; 12],
    pub attr_types: Vec<u16>,
    pub consumed: usize,
    /// Debug rendering of the attributes (used to compare two decodes for equality)
    pub repr: String,
}

pub fn summarize(m: &StunMessage, n: usize) -> Decoded {
    Decoded {
        class: match m.class() {
            MessageClass::Request => 0,
            MessageClass::Indication => 1,
            MessageClass::SuccessResponse => 2,
            MessageClass::ErrorResponse => 3,
        },
        method: m.method().as_u16(),
        txid: *m.transaction_id().as_bytes(),
        attr_types: m.attributes().iter().map(|a| a.attribute_type().as_u16()).collect(),
        consumed: n,
        repr: format!("{:?}", m.attributes()),
    }
}

#[derive(Clone, Debug, PartialEq, Eq)]
pub enum DecodeOutcome {
    Ok(Decoded),
    Err(String),
    Panic(String),
}

pub fn decode(d: &MessageDecoder, bytes: &[u8]) -> DecodeOutcome {
    match catch_unwind(AssertUnwindSafe(|| d.decode(bytes))) {
        Ok(Ok((m, n))) => DecodeOutcome::Ok(summarize(&m, n)),
        Ok(Err(e)) => DecodeOutcome::Err(format!("{}", e)),
        Err(_) => DecodeOutcome::Panic(crate::world::take_panic_loc()),
    }
}

/// Does the library's default decoder accept these bytes?
pub fn decodes(bytes: &[u8]) -> bool {
    let d = MessageDecoderBuilder::default().build();
    matches!(decode(&d, bytes), DecodeOutcome::Ok(_))
}

pub fn short_term_key(password: &str) -> Option<HMACKey> {
    HMACKey::new_short_term(password).ok()
}

pub fn long_term_key(user: &str, realm: &str, password: &str, sha256: bool) -> Option<HMACKey> {
    let alg = Algorithm::from(if sha256 { AlgorithmId::SHA256 } else { AlgorithmId::MD5 });
    HMACKey::new_long_term(user, realm, password, alg).ok()
}

#[derive(Clone, Copy, Debug, PartialEq, Eq, Hash)]
pub enum LibVerdict {
    /// no input text / attribute not found by the library
    Absent,
    Invalid,
    Valid,
    Panic,
}

/// `MessageIntegrity::validate(get_input_text(..), key)` on the first MESSAGE-INTEGRITY the
/// default decoder returns.
pub fn validate_mi(bytes: &[u8], key: &HMACKey) -> LibVerdict {
    let r = catch_unwind(AssertUnwindSafe(|| {
        let d = MessageDecoderBuilder::default().build();
        let Ok((m, _)) = d.decode(bytes) else { return LibVerdict::Absent };
        let Some(a) = m.get::<MessageIntegrity>() else { return LibVerdict::Absent };
        let Ok(a) = a.as_message_integrity() else { return LibVerdict::Absent };
        let Some(input) = get_input_text::<MessageIntegrity>(bytes) else { return LibVerdict::Absent };
        if a.validate(&input, key) {
            LibVerdict::Valid
        } else {
            LibVerdict::Invalid
        }
    }));
    r.unwrap_or(LibVerdict::Panic)
}

pub fn validate_mi256(bytes: &[u8], key: &HMACKey) -> LibVerdict {
    let r = catch_unwind(AssertUnwindSafe(|| {
        let d = MessageDecoderBuilder::default().build();
        let Ok((m, _)) = d.decode(bytes) else { return LibVerdict::Absent };
        let Some(a) = m.get::<MessageIntegritySha256>() else { return LibVerdict::Absent };
        let Ok(a) = a.as_message_integrity_sha256() else { return LibVerdict::Absent };
        let Some(input) = get_input_text::<MessageIntegritySha256>(bytes) else { return LibVerdict::Absent };
        if a.validate(&input, key) {
            LibVerdict::Valid
        } else {
            LibVerdict::Invalid
        }
    }));
    r.unwrap_or(LibVerdict::Panic)
}

pub fn validate_fp(bytes: &[u8]) -> LibVerdict {
    let r = catch_unwind(AssertUnwindSafe(|| {
        let d = MessageDecoderBuilder::default().build();
        let Ok((m, _)) = d.decode(bytes) else { return LibVerdict::Absent };
        let Some(a) = m.get::<Fingerprint>() else { return LibVerdict::Absent };
        let Ok(a) = a.as_fingerprint() else { return LibVerdict::Absent };
        let Some(input) = get_input_text::<Fingerprint>(bytes) else { return LibVerdict::Absent };
        if a.validate(&input) {
            LibVerdict::Valid
        } else {
            LibVerdict::Invalid
        }
    }));
    r.unwrap_or(LibVerdict::Panic)
}

/// `get_input_text` for all three verifiable attribute types must return (not panic).
pub fn input_texts_return(bytes: &[u8]) -> Result<(), String> {
    let r = catch_unwind(AssertUnwindSafe(|| {
        let _ = get_input_text::<MessageIntegrity>(bytes);
        let _ = get_input_text::<MessageIntegritySha256>(bytes);
        let _ = get_input_text::<Fingerprint>(bytes);
    }));
    r.map_err(|_| crate::world::take_panic_loc())
}
