//! C15: the RTO estimator against a double-precision RFC 6298 reference (alpha 1/8, beta 1/4, K 4,
//! configurable granularity, RTTVAR updated before SRTT, no rounding to seconds, Karn's rule,
//! 600 s staleness).

use crate::ledger::*;
use crate::oracle_tx::schedule;

fn v(key: String, step: usize, detail: String) -> Violation {
    Violation { prop: "C15", key, step, detail }
}

#[derive(Clone, Debug)]
pub struct RttRef {
    pub cfg_rto: f64,
    pub gran: f64,
    pub rto: f64,
    pub srtt: Option<f64>,
    pub rttvar: f64,
    pub last_request: Option<u64>,
}

impl RttRef {
    pub fn new(cfg_rto: u64, gran: u64) -> Self {
        RttRef { cfg_rto: cfg_rto as f64, gran: gran as f64, rto: cfg_rto as f64, srtt: None, rttvar: 0.0, last_request: None }
    }
    pub fn reset(&mut self) {
        self.srtt = None;
        self.rttvar = 0.0;
        self.rto = self.cfg_rto;
    }
    pub fn sample(&mut self, r: f64) {
        match self.srtt {
            None => {
                self.srtt = Some(r);
                self.rttvar = r / 2.0;
            }
            Some(s) => {
                self.rttvar = 0.75 * self.rttvar + 0.25 * (s - r).abs();
                self.srtt = Some(0.875 * s + 0.125 * r);
            }
        }
        self.rto = self.srtt.unwrap() + self.gran.max(4.0 * self.rttvar);
    }
    /// returns true if the estimate was reset as stale
    pub fn on_request(&mut self, now: u64) -> bool {
        let mut reset = false;
        if let Some(l) = self.last_request {
            if now - l > 600_000_000_000 {
                self.reset();
                reset = true;
            }
        }
        self.last_request = Some(now);
        reset
    }
}

fn close(a: u64, b: f64) -> bool {
    let d = (a as f64 - b).abs();
    d <= 1e-5 * b.abs() + 1000.0
}

#[derive(Default, Clone, Debug)]
pub struct RttFacts {
    pub samples: usize,
    pub retransmitted_completed: usize,
    pub gap_near_600: usize,
    pub resets: usize,
    pub gran_dominates: usize,
    pub zero_samples: usize,
}

pub fn check_c15(l: &Ledger) -> (Vec<Violation>, RttFacts) {
    let mut out = vec![];
    let mut facts = RttFacts::default();
    let Transport::Unreliable { rto_ns, gran_ns, rm, rc } = l.cfg.transport else {
        return (out, facts);
    };
    let mut r = RttRef::new(rto_ns, gran_ns);
    let mut gen = 0;
    for st in &l.steps {
        if st.gen != gen {
            gen = st.gen;
            r = RttRef::new(rto_ns, gran_ns);
        }
        if matches!(st.result, CallResult::Panic(_)) {
            break;
        }
        match (&st.call, &st.result) {
            (Call::SendRequest { .. }, CallResult::OkId(id)) => {
                if let Some(last) = r.last_request {
                    let gap = st.t - last;
                    if gap.abs_diff(600_000_000_000) <= 1_000_000_000 {
                        facts.gap_near_600 += 1;
                    }
                }
                let had_estimate = r.srtt.is_some();
                let was_reset = r.on_request(st.t);
                if was_reset {
                    facts.resets += 1;
                }
                let gapclass = if was_reset { "after-gap>600s" } else if had_estimate { "with-estimate" } else { "initial" };
                // the RTO the client chose for this request (H2) ...
                if let Some(got) = st.snap.rto_ns {
                    if !close(got, r.rto) {
                        out.push(v(
                            format!("C15/rto-at-send-differs-from-reference({})", gapclass),
                            st.idx,
                            format!("step {}: request sent at {} ns: client RTO {} ns, RFC 6298 reference {:.0} ns (configured {}, granularity {})", st.idx, st.t, got, r.rto, rto_ns, gran_ns),
                        ));
                    }
                }
                // ... and, through the public API, the interval announced when nothing else is outstanding
                let others = l.txs.iter().filter(|t| t.gen == st.gen && t.id != *id && t.awaiting_after(st.idx)).count();
                if others == 0 {
                    if let Some(Ev::Timer(tid, d)) = st.events.last() {
                        if tid == id {
                            let want = if rc >= 2 { r.rto } else { r.rto * rm as f64 };
                            if !close(*d, want) {
                                out.push(v(
                                    format!("C15/announced-first-interval-differs-from-reference({})", gapclass),
                                    st.idx,
                                    format!("step {}: first interval announced {} ns, reference {:.0} ns", st.idx, d, want),
                                ));
                            }
                        }
                    }
                }
                // first retransmission interval of the request equals the estimate it was sent with
                if let (Some(tx), Some(got)) = (l.tx_by_id(id, st.gen), st.snap.rto_ns) {
                    let sch = schedule(tx.t0, got, rc, rm);
                    if let Some((_, a, d)) = st.snap.timeouts.iter().find(|(i, _, _)| i == id) {
                        if a + d != sch.pending(tx.t0) {
                            out.push(v(
                                "C15/first-interval-differs-from-estimate".into(),
                                st.idx,
                                format!("step {}: pending expiry {} ns, expected t0 + estimate = {} ns", st.idx, a + d, sch.pending(tx.t0)),
                            ));
                        }
                    }
                }
            }
            (Call::Recv { .. }, _) => {
                // a transaction that completes by a response at this step
                for tx in l.txs.iter().filter(|t| t.gen == st.gen && t.final_step() == Some(st.idx)) {
                    let n_tx = tx.transmissions.iter().filter(|(s, _, _)| *s < st.idx).count();
                    if n_tx == 1 {
                        // a response handed over at the very instant of the request is a sample like any other (R = 0)
                        let rtt = (st.t - tx.t0) as f64;
                        r.sample(rtt);
                        facts.samples += 1;
                        if rtt == 0.0 {
                            facts.zero_samples += 1;
                        }
                        if r.gran > 4.0 * r.rttvar {
                            facts.gran_dominates += 1;
                        }
                    } else {
                        facts.retransmitted_completed += 1;
                    }
                }
                if let Some(got) = st.snap.rto_ns {
                    if !close(got, r.rto) {
                        let what = if l.txs.iter().any(|t| t.gen == st.gen && t.final_step() == Some(st.idx) && t.transmissions.len() > 1) {
                            "after-retransmitted-transaction"
                        } else if facts.samples <= 1 {
                            "first-sample"
                        } else {
                            "later-sample"
                        };
                        out.push(v(
                            format!("C15/rto-after-response-differs-from-reference({})", what),
                            st.idx,
                            format!("step {}: client RTO {} ns, RFC 6298 reference {:.0} ns after {} sample(s)", st.idx, got, r.rto, facts.samples),
                        ));
                        // resynchronise on the observed value to report each divergence once
                        r.rto = got as f64;
                        if let (Some(s), Some(vv)) = (st.snap.srtt_ns, st.snap.rttvar_ns) {
                            r.srtt = if s == 0 { None } else { Some(s as f64) };
                            r.rttvar = vv as f64;
                        }
                    }
                }
            }
            (Call::Timeout { .. }, _) => {
                if let Some(got) = st.snap.rto_ns {
                    if !close(got, r.rto) {
                        out.push(v(
                            "C15/rto-changed-by-timer-call".into(),
                            st.idx,
                            format!("step {}: client RTO {} ns, reference {:.0} ns", st.idx, got, r.rto),
                        ));
                        r.rto = got as f64;
                    }
                }
            }
            _ => {}
        }
    }
    (out, facts)
}
