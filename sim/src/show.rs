//! Human readable dump of a ledger (for `replay --show`).

use crate::crypto::hex;
use crate::ledger::*;
use crate::wire;

fn txname(l: &Ledger, id: &Id) -> String {
    match l.tx_any_gen(id) {
        Some(t) => format!("tx#{}", t.k),
        None => format!("id:{}", &hex(id)[..8]),
    }
}

pub fn describe_packet(l: &Ledger, b: &[u8]) -> String {
    match wire::parse(b) {
        Ok(p) => {
            let cls = ["request", "indication", "success", "error"][p.class as usize];
            let attrs: Vec<String> = p.attrs.iter().map(|a| format!("{:04x}/{}", a.typ, a.value.len())).collect();
            let code = p.error_code().map(|c| format!(" code={}", c)).unwrap_or_default();
            format!("{} m={:03x} {}{} [{}] {}B", cls, p.method, txname(l, &p.txid), code, attrs.join(" "), b.len())
        }
        Err(e) => format!("unparseable({}) {}B {}", e, b.len(), hex(&b[..b.len().min(24)])),
    }
}

pub fn print_ledger(l: &Ledger) {
    println!("cfg: {}", crate::world::cfg_to_line(&l.cfg));
    for st in &l.steps {
        let call = match &st.call {
            Call::SendRequest { app, method, attrs, buf_len, .. } => format!("send_request app#{} m={:03x} attrs={} buf={}", app, method, attrs, buf_len),
            Call::SendIndication { app, method, attrs, buf_len, .. } => format!("send_indication app#{} m={:03x} attrs={} buf={}", app, method, attrs, buf_len),
            Call::Recv { bytes, origin, fault } => format!("on_buffer_recv {:?} {} <{}>", origin, fault, describe_packet(l, bytes)),
            Call::Timeout { timer_n, spurious } => format!("on_timeout timer#{:?}{}", timer_n, if *spurious { " (spurious)" } else { "" }),
            Call::Restart => "RESTART".to_string(),
        };
        println!("step {:3} t={:>14}ns {:?} gen{} {} -> {:?}", st.idx, st.t, st.phase, st.gen, call, st.result);
        for e in &st.events {
            match e {
                Ev::Output(b) => println!("          ev Output <{}>", describe_packet(l, b)),
                Ev::Timer(id, d) => println!("          ev Timer {} in {} ns", txname(l, id), d),
                Ev::Retry(id) => println!("          ev Retry {}", txname(l, id)),
                Ev::Failed(id, w) => println!("          ev Failed {} {:?}", txname(l, id), w),
                Ev::Received(m) => println!("          ev Received class={} {} attrs={:04x?}", m.class, txname(l, &m.id), m.attr_types),
            }
        }
        println!(
            "          snap outstanding={} timeouts={:?} rto={:?} cred={} violated={}",
            st.snap.outstanding.len(),
            st.snap.timeouts.iter().map(|(id, a, d)| format!("{}@{}", txname(l, id), a + d)).collect::<Vec<_>>(),
            st.snap.rto_ns,
            st.snap.cred,
            st.snap.violated.len()
        );
    }
    for t in &l.txs {
        println!(
            "tx#{} app#{} gen{} t0={} rto={} transmissions={:?} finals={:?}",
            t.k,
            t.app,
            t.gen,
            t.t0,
            t.rto_ns,
            t.transmissions.iter().map(|(s, t, _)| (*s, *t)).collect::<Vec<_>>(),
            t.finals
        );
    }
}
