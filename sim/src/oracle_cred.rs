//! Ledger predicates for the credential / packet-shape properties: C07 (short-term), C08
//! (long-term), C10 (client half: FINGERPRINT enforcement), C13 (emitted packets well formed).
//! Everything is decided with the independent codec and crypto of `wire` / `crypto`.

use crate::ledger::*;
use crate::server::{Alg, Mech};
use crate::wire::{self, Parsed, Verdict};
use crate::world::app_token_wire;

fn v(prop: &'static str, key: String, step: usize, detail: String) -> Violation {
    Violation { prop, key, step, detail }
}

fn transport_name(l: &Ledger) -> &'static str {
    if l.cfg.is_reliable() {
        "reliable"
    } else {
        "unreliable"
    }
}

/// What the independent verifier sees in an incoming message.
pub struct Seen {
    pub p: Parsed,
    pub fp: Verdict,
    pub has_mi: bool,
    pub has_sha: bool,
}

pub fn see(bytes: &[u8]) -> Option<Seen> {
    let p = wire::parse(bytes).ok()?;
    let adm = wire::admitted(&p.types());
    let has_mi = p.attrs.iter().enumerate().any(|(i, a)| a.typ == wire::A_MI && adm[i]);
    let has_sha = p.attrs.iter().enumerate().any(|(i, a)| a.typ == wire::A_MI256 && adm[i]);
    let fp = wire::verify_fingerprint(bytes, &p);
    Some(Seen { p, fp, has_mi, has_sha })
}

fn delivered(st: &Step, id: &Id, class_min: u8) -> bool {
    st.events.iter().any(|e| matches!(e, Ev::Received(m) if m.id == *id && m.class >= class_min))
}

fn delivered_indication(st: &Step, id: &Id) -> bool {
    st.events.iter().any(|e| matches!(e, Ev::Received(m) if m.id == *id && m.class == 1))
}

fn failed_with(st: &Step, id: &Id, why: Why) -> bool {
    st.events.iter().any(|e| matches!(e, Ev::Failed(i, w) if i == id && *w == why))
}

fn ignored(st: &Step) -> bool {
    matches!(st.result, CallResult::Err(_)) && st.events.is_empty()
}

fn is_err(st: &Step) -> bool {
    matches!(st.result, CallResult::Err(_))
}

/// Does the fingerprint stage let this message through (C10 owns what happens when it does not)?
fn passes_fp_stage(l: &Ledger, s: &Seen) -> bool {
    !l.cfg.fp || s.fp == Verdict::Good
}

// ---------------------------------------------------------------------------------------------
// C10 (client half)
// ---------------------------------------------------------------------------------------------

pub fn check_c10_client(l: &Ledger) -> Vec<Violation> {
    let mut out = vec![];
    if !l.cfg.fp {
        return out;
    }
    let mech = crate::world::mech_to_str(&l.cfg.mech);
    for st in &l.steps {
        match &st.call {
            Call::SendRequest { .. } | Call::SendIndication { .. } => {
                for e in &st.events {
                    if let Ev::Output(b) = e {
                        let ok = match wire::parse(b) {
                            Ok(p) => {
                                p.attrs.last().map(|a| a.typ) == Some(wire::A_FINGERPRINT)
                                    && wire::verify_fingerprint(b, &p) == Verdict::Good
                                    && p.count(wire::A_FINGERPRINT) == 1
                            }
                            Err(_) => false,
                        };
                        if !ok {
                            out.push(v(
                                "C10",
                                format!("C10/emitted-packet-without-valid-final-fingerprint(mech={})", mech),
                                st.idx,
                                format!("step {}: packet emitted by a fingerprint-configured client does not end with one valid FINGERPRINT", st.idx),
                            ));
                        }
                    }
                }
            }
            Call::Recv { bytes, fault, .. } => {
                let Some(s) = see(bytes) else { continue };
                if s.p.class == wire::C_REQUEST {
                    continue;
                }
                // a correct FINGERPRINT must not make the client reject: without a credential mechanism a decodable
                // response for an awaiting request (or an indication) whose first FINGERPRINT verifies is delivered,
                // whatever an on-path party appended after it (C09: such attributes have no effect)
                if s.fp == Verdict::Good && l.cfg.mech == Mech::None && crate::libtap::decodes(bytes) {
                    let awaiting = s.p.class == wire::C_INDICATION
                        || l.txs.iter().any(|t| t.id == s.p.txid && t.gen == st.gen && t.awaiting_before(st.idx));
                    if awaiting && !matches!(st.result, CallResult::Ok) {
                        out.push(v(
                            "C10",
                            format!("C10/message-with-valid-fingerprint-rejected({})", if s.p.attrs.last().map(|a| a.typ) == Some(wire::A_FINGERPRINT) { "fingerprint-last" } else { "attributes-after-fingerprint" }),
                            st.idx,
                            format!("step {}: a message whose FINGERPRINT verifies was rejected: {:?} [{}]", st.idx, st.result, fault),
                        ));
                    }
                }
                if s.fp != Verdict::Good {
                    let what = if s.fp == Verdict::Absent { "absent" } else { "wrong" };
                    let cls = ["request", "indication", "response", "response"][s.p.class as usize];
                    if !is_err(st) || !st.events.is_empty() {
                        out.push(v(
                            "C10",
                            format!("C10/message-with-{}-fingerprint-not-rejected({},mech={})", what, cls, mech),
                            st.idx,
                            format!(
                                "step {}: received {} whose FINGERPRINT is {} [{}] returned {:?} with {} event(s)",
                                st.idx,
                                cls,
                                what,
                                fault,
                                st.result,
                                st.events.len()
                            ),
                        ));
                    }
                }
            }
            _ => {}
        }
    }
    out
}

// ---------------------------------------------------------------------------------------------
// C07 short-term
// ---------------------------------------------------------------------------------------------

fn alg_name(a: Option<Alg>) -> &'static str {
    match a {
        None => "unset",
        Some(Alg::Mi) => "MI",
        Some(Alg::Sha) => "SHA256",
    }
}

pub fn check_c07(l: &Ledger) -> Vec<Violation> {
    let mut out = vec![];
    let Mech::ShortTerm(cfg_alg) = l.cfg.mech.clone() else {
        return out;
    };
    let key = l.cfg.pw().into_bytes();
    let rel = l.cfg.is_reliable();
    let tname = transport_name(l);
    let mut alg: Option<Alg> = cfg_alg;
    let mut gen = 0u32;
    // per transaction index: saw a response that failed authentication (wrong/absent integrity), saw an ambiguous one
    let mut rejected: Vec<bool> = vec![false; l.txs.len()];
    let mut ambiguous: Vec<bool> = vec![false; l.txs.len()];
    for st in &l.steps {
        if st.gen != gen {
            gen = st.gen;
            alg = cfg_alg; // a restarted client starts from its configuration
        }
        match &st.call {
            Call::Restart => {}
            Call::SendRequest { .. } | Call::SendIndication { .. } => {
                if !matches!(st.result, CallResult::OkId(_)) {
                    continue;
                }
                for e in &st.events {
                    let Ev::Output(b) = e else { continue };
                    let Some(s) = see(b) else {
                        out.push(v("C07", "C07/emitted-packet-unparseable".into(), st.idx, format!("step {}", st.idx)));
                        continue;
                    };
                    let user_ok = s.p.string(wire::A_USERNAME).as_deref() == Some(l.cfg.user.as_str()) && s.p.count(wire::A_USERNAME) == 1;
                    if !user_ok {
                        out.push(v(
                            "C07",
                            "C07/emitted-packet-without-username".into(),
                            st.idx,
                            format!("step {}: request/indication does not carry exactly the configured USERNAME", st.idx),
                        ));
                    }
                    let mi = wire::verify_integrity(b, &s.p, wire::A_MI, &key);
                    let sha = wire::verify_integrity(b, &s.p, wire::A_MI256, &key);
                    let (want_mi, want_sha) = match alg {
                        None => (true, true),
                        Some(Alg::Mi) => (true, false),
                        Some(Alg::Sha) => (false, true),
                    };
                    let check = |name: &str, want: bool, got: Verdict, out: &mut Vec<Violation>| {
                        let bad = match (want, got) {
                            (true, Verdict::Good) => None,
                            (true, Verdict::Absent) => Some("missing"),
                            (true, Verdict::Bad) => Some("does-not-verify"),
                            (false, Verdict::Absent) => None,
                            (false, _) => Some("unexpected"),
                        };
                        if let Some(bad) = bad {
                            out.push(v(
                                "C07",
                                format!("C07/emitted-integrity-{}({},agreed={})", bad, name, alg_name(alg)),
                                st.idx,
                                format!("step {}: emitted packet: {} is {} while the agreed algorithm is {}", st.idx, name, bad, alg_name(alg)),
                            ));
                        }
                    };
                    check("MESSAGE-INTEGRITY", want_mi, mi, &mut out);
                    check("MESSAGE-INTEGRITY-SHA256", want_sha, sha, &mut out);
                }
            }
            Call::Recv { bytes, fault, .. } => {
                let Some(s) = see(bytes) else { continue };
                if s.p.class == wire::C_REQUEST || !passes_fp_stage(l, &s) {
                    continue;
                }
                let ok_mi = s.has_mi && wire::verify_integrity(bytes, &s.p, wire::A_MI, &key) == Verdict::Good;
                let ok_sha = s.has_sha && wire::verify_integrity(bytes, &s.p, wire::A_MI256, &key) == Verdict::Good;
                let id = s.p.txid;
                // a message damaged in flight may no longer be decodable by the library at attribute level
                // (the independent parser only walks TLVs): such a message is not "a response with wrong
                // integrity", its rejection belongs to C03/C17
                if !fault.is_empty() && !crate::libtap::decodes(bytes) {
                    continue;
                }
                let corrupted = false;
                if s.p.class == wire::C_INDICATION {
                    let got = delivered_indication(st, &id);
                    let admissible_ok = match alg {
                        None => ok_mi || ok_sha,
                        Some(Alg::Mi) => ok_mi,
                        Some(Alg::Sha) => ok_sha,
                    };
                    let exactly_one = s.has_mi != s.has_sha;
                    if got && !admissible_ok {
                        out.push(v(
                            "C07",
                            format!("C07/unauthenticated-indication-delivered(agreed={},mi={},sha={})", alg_name(alg), cls(s.has_mi, ok_mi), cls(s.has_sha, ok_sha)),
                            st.idx,
                            format!("step {}: indication without a verifying integrity attribute of an admissible kind was delivered [{}]", st.idx, fault),
                        ));
                    }
                    if !got && admissible_ok && exactly_one && !corrupted {
                        out.push(v(
                            "C07",
                            format!("C07/authenticated-indication-dropped(agreed={})", alg_name(alg)),
                            st.idx,
                            format!("step {}: correctly protected indication was not delivered ({:?})", st.idx, st.result),
                        ));
                    }
                    if !got && !st.events.is_empty() {
                        out.push(v(
                            "C07",
                            "C07/rejected-indication-produced-events".into(),
                            st.idx,
                            format!("step {}: a dropped indication produced {} event(s)", st.idx, st.events.len()),
                        ));
                    }
                    continue;
                }
                // response
                let Some(tx) = l.txs.iter().find(|t| t.id == id && t.gen == st.gen && t.awaiting_before(st.idx)) else {
                    // "ends the transaction": once a response failed authentication on reliable transport (or the
                    // request failed as protection-violated at its deadline) nothing more may be delivered for it
                    if let Some(t) = l.txs.iter().rev().find(|t| t.id == id && t.gen == st.gen) {
                        if matches!(t.finals.first(), Some((_, _, Outcome::Failed(Why::ProtectionViolated)))) && (delivered(st, &id, 2) || !st.events.is_empty()) {
                            out.push(v(
                                "C07",
                                format!("C07/response-accepted-after-protection-violated({})", tname),
                                st.idx,
                                format!("step {}: tx#{} had ended with ProtectionViolated, yet a later response with its id produced {:?} {:?}", st.idx, t.k, st.result, st.events),
                            ));
                        }
                    }
                    // unknown or finished id: C05's business. If the client nevertheless delivered it, follow what
                    // it learned from it so that this defect is not reported a second time under C07 keys.
                    if delivered(st, &id, 2) && alg.is_none() {
                        alg = if s.has_mi && ok_mi {
                            Some(Alg::Mi)
                        } else if s.has_sha && ok_sha {
                            Some(Alg::Sha)
                        } else {
                            None
                        };
                    }
                    continue;
                };
                let got = delivered(st, &id, 2);
                let both = s.has_mi && s.has_sha;
                let (sel_present, sel_ok, sel_kind) = match alg {
                    Some(Alg::Mi) => (s.has_mi, ok_mi, Some(Alg::Mi)),
                    Some(Alg::Sha) => (s.has_sha, ok_sha, Some(Alg::Sha)),
                    None => {
                        if s.has_mi {
                            (true, ok_mi, Some(Alg::Mi))
                        } else if s.has_sha {
                            (true, ok_sha, Some(Alg::Sha))
                        } else {
                            (false, false, None)
                        }
                    }
                };
                let shape = format!("agreed={},mi={},sha={}", alg_name(alg), cls(s.has_mi, ok_mi), cls(s.has_sha, ok_sha));
                if both {
                    ambiguous[tx.k] = true;
                    if got {
                        out.push(v(
                            "C07",
                            format!("C07/response-with-both-integrity-attributes-delivered({})", shape),
                            st.idx,
                            format!("step {}: a response carrying both integrity attributes was delivered", st.idx),
                        ));
                    } else {
                        let pv_now = failed_with(st, &id, Why::ProtectionViolated);
                        if !(ignored(st) || (rel && pv_now)) {
                            out.push(v(
                                "C07",
                                format!("C07/both-integrity-response-unexpected-outcome({},{})", tname, shape),
                                st.idx,
                                format!("step {}: {:?} events {:?}", st.idx, st.result, st.events),
                            ));
                        }
                    }
                    continue;
                }
                if sel_present && sel_ok {
                    if !got {
                        if !corrupted {
                            out.push(v(
                                "C07",
                                format!("C07/authenticated-response-not-delivered({},{})", tname, shape),
                                st.idx,
                                format!("step {}: a response that verifies under the password with the agreed algorithm was not delivered: {:?} {:?}", st.idx, st.result, st.events),
                            ));
                        }
                    } else if alg.is_none() {
                        alg = sel_kind;
                    }
                } else {
                    // wrong or absent integrity
                    if corrupted {
                        ambiguous[tx.k] = true;
                    } else {
                        rejected[tx.k] = true;
                    }
                    if got {
                        out.push(v(
                            "C07",
                            format!("C07/unauthenticated-response-delivered({},{})", tname, shape),
                            st.idx,
                            format!("step {}: a response whose integrity of the agreed kind is absent or wrong was delivered [{}]", st.idx, fault),
                        ));
                        if alg.is_none() {
                            // follow the observed (wrong) behaviour so that later verdicts stay meaningful
                            alg = sel_kind;
                        }
                    } else if rel {
                        if !failed_with(st, &id, Why::ProtectionViolated) {
                            out.push(v(
                                "C07",
                                format!("C07/reliable-bad-integrity-did-not-end-transaction({})", shape),
                                st.idx,
                                format!("step {}: on reliable transport the transaction must end with ProtectionViolated now; got {:?} {:?}", st.idx, st.result, st.events),
                            ));
                        }
                    } else if !ignored(st) {
                        out.push(v(
                            "C07",
                            format!("C07/unreliable-bad-integrity-not-ignored({})", shape),
                            st.idx,
                            format!("step {}: on unreliable transport the response must be ignored; got {:?} {:?}", st.idx, st.result, st.events),
                        ));
                    }
                }
            }
            Call::Timeout { .. } => {
                if rel {
                    continue;
                }
                for e in &st.events {
                    if let Ev::Failed(id, why) = e {
                        let Some(tx) = l.txs.iter().find(|t| t.id == *id && t.gen == st.gen) else { continue };
                        if tx.final_step() != Some(st.idx) || ambiguous[tx.k] {
                            continue;
                        }
                        match why {
                            Why::TimedOut if rejected[tx.k] => out.push(v(
                                "C07",
                                "C07/timeout-reported-instead-of-protection-violated".into(),
                                st.idx,
                                format!("step {}: tx#{} saw a response that failed authentication and no acceptable one, but its failure is reported as TimedOut", st.idx, tx.k),
                            )),
                            Why::ProtectionViolated if !rejected[tx.k] => out.push(v(
                                "C07",
                                "C07/protection-violated-without-rejected-response".into(),
                                st.idx,
                                format!("step {}: tx#{} never received a response that failed authentication, but its failure is reported as ProtectionViolated", st.idx, tx.k),
                            )),
                            _ => {}
                        }
                    }
                }
            }
        }
    }
    out
}

fn cls(present: bool, ok: bool) -> &'static str {
    if !present {
        "absent"
    } else if ok {
        "ok"
    } else {
        "bad"
    }
}

// ---------------------------------------------------------------------------------------------
// C13 emitted packets
// ---------------------------------------------------------------------------------------------

const LT_OWNED: &[u16] = &[
    wire::A_USERNAME,
    wire::A_USERHASH,
    wire::A_REALM,
    wire::A_NONCE,
    wire::A_PASSWORD_ALGORITHM,
    wire::A_PASSWORD_ALGORITHMS,
];

/// Application list as the property describes it: one per type, first-insertion position, last value.
pub fn expected_app_list(spec: &str) -> Vec<(u16, Option<Vec<u8>>)> {
    let mut out: Vec<(u16, Option<Vec<u8>>)> = vec![];
    if spec == "-" || spec.is_empty() {
        return out;
    }
    for tok in spec.split(',') {
        if let Some((t, val)) = app_token_wire(tok) {
            if let Some(e) = out.iter_mut().find(|(x, _)| *x == t) {
                e.1 = val;
            } else {
                out.push((t, val));
            }
        }
    }
    out
}

pub fn check_c13(l: &Ledger) -> Vec<Violation> {
    let mut out = vec![];
    let mech = crate::world::mech_to_str(&l.cfg.mech);
    let mut seen_ids: Vec<Id> = vec![];
    let lt_keys = lt_track(l);
    for st in &l.steps {
        let (want_class, method, attrs) = match &st.call {
            Call::SendRequest { method, attrs, .. } => (wire::C_REQUEST, *method, attrs.clone()),
            Call::SendIndication { method, attrs, .. } => (wire::C_INDICATION, *method, attrs.clone()),
            _ => continue,
        };
        let CallResult::OkId(id) = &st.result else {
            // a send may fail for want of capacity or buffer space, or because the application handed over an
            // attribute that cannot be encoded and that the client does not own in this configuration; it must
            // not fail on account of an attribute the client replaces
            if let (CallResult::Err(ErrKind::Internal(msg)), Call::SendRequest { buf_len, .. } | Call::SendIndication { buf_len, .. }) = (&st.result, &st.call) {
                let toks: Vec<&str> = attrs.split(',').collect();
                let owns_mi = !matches!(l.cfg.mech, Mech::None);
                let unowned_decoded = toks.iter().any(|t| match *t {
                    "fpd" => !l.cfg.fp,
                    "mid" | "mi256d" => !owns_mi,
                    _ => false,
                });
                let has_decoded = toks.iter().any(|t| matches!(*t, "fpd" | "mid" | "mi256d"));
                let lt_indication = l.cfg.mech == Mech::LongTerm && matches!(st.call, Call::SendIndication { .. });
                if has_decoded && !unowned_decoded && *buf_len >= 1024 && !lt_indication && msg.contains("encode") {
                    out.push(v(
                        "C13",
                        format!("C13/send-failed-on-application-attribute-the-client-replaces(mech={},fp={})", mech, l.cfg.fp),
                        st.idx,
                        format!("step {}: send failed ({}) although every non-encodable application attribute ({}) is one the client replaces", st.idx, msg, attrs),
                    ));
                }
            }
            if !st.events.is_empty() && !matches!(st.result, CallResult::Panic(_)) {
                out.push(v(
                    "C13",
                    "C13/failed-send-produced-events".into(),
                    st.idx,
                    format!("step {}: send returned {:?} but produced {} event(s)", st.idx, st.result, st.events.len()),
                ));
            }
            continue;
        };
        let outs: Vec<&Vec<u8>> = st.events.iter().filter_map(|e| if let Ev::Output(b) = e { Some(b) } else { None }).collect();
        if outs.len() != 1 {
            out.push(v(
                "C13",
                format!("C13/send-emitted-{}-packets", outs.len()),
                st.idx,
                format!("step {}: a successful send must emit exactly one packet", st.idx),
            ));
            continue;
        }
        let b = outs[0];
        let p = match wire::parse(b) {
            Ok(p) if p.total() == b.len() => p,
            _ => {
                out.push(v("C13", "C13/emitted-packet-not-parseable".into(), st.idx, format!("step {}: emitted packet does not parse as one STUN message of its own length", st.idx)));
                continue;
            }
        };
        if p.class != want_class || p.method != (method & 0x0fff) {
            out.push(v(
                "C13",
                "C13/wrong-class-or-method".into(),
                st.idx,
                format!("step {}: asked class {} method {:#x}, emitted class {} method {:#x}", st.idx, want_class, method, p.class, p.method),
            ));
        }
        if p.txid != *id {
            out.push(v("C13", "C13/returned-id-differs-from-packet".into(), st.idx, format!("step {}", st.idx)));
        }
        if seen_ids.contains(&p.txid) {
            out.push(v("C13", "C13/transaction-id-reused".into(), st.idx, format!("step {}: transaction id {} was used before", st.idx, idhex(&p.txid))));
        }
        seen_ids.push(p.txid);
        // no attribute type twice
        let types = p.types();
        for (i, t) in types.iter().enumerate() {
            if types[..i].contains(t) {
                out.push(v(
                    "C13",
                    format!("C13/duplicate-attribute-type({:#06x},mech={})", t, mech),
                    st.idx,
                    format!("step {}: attribute type {:#06x} occurs twice (application list {})", st.idx, t, attrs),
                ));
                break;
            }
        }
        // split: body / tail
        let tail_start = types
            .iter()
            .position(|t| matches!(*t, wire::A_MI | wire::A_MI256 | wire::A_FINGERPRINT))
            .unwrap_or(types.len());
        let tail: Vec<u16> = types[tail_start..].to_vec();
        // tail must be a subsequence of [MI, MI256, FP]
        let canon = [wire::A_MI, wire::A_MI256, wire::A_FINGERPRINT];
        let mut ci = 0;
        let mut tail_ok = true;
        for t in &tail {
            while ci < 3 && canon[ci] != *t {
                ci += 1;
            }
            if ci == 3 {
                tail_ok = false;
                break;
            }
            ci += 1;
        }
        if !tail_ok {
            out.push(v(
                "C13",
                format!("C13/integrity-fingerprint-tail-out-of-order(mech={})", mech),
                st.idx,
                format!("step {}: attribute types {:04x?} (application list {})", st.idx, types, attrs),
            ));
        }
        // application attributes first
        let owned: &[u16] = match l.cfg.mech {
            Mech::None => &[],
            Mech::ShortTerm(_) => &[wire::A_USERNAME],
            Mech::LongTerm => LT_OWNED,
        };
        let app: Vec<(u16, Option<Vec<u8>>)> = expected_app_list(&attrs)
            .into_iter()
            .filter(|(t, _)| !matches!(*t, wire::A_MI | wire::A_MI256 | wire::A_FINGERPRINT) && !owned.contains(t))
            .collect();
        let body = &p.attrs[..tail_start];
        let mut app_ok = body.len() >= app.len();
        if app_ok {
            for (i, (t, val)) in app.iter().enumerate() {
                if body[i].typ != *t || val.as_ref().map_or(false, |x| *x != body[i].value) {
                    app_ok = false;
                }
            }
        }
        if !app_ok {
            out.push(v(
                "C13",
                format!("C13/application-attributes-not-preserved(mech={})", mech),
                st.idx,
                format!("step {}: application list {} => expected prefix {:04x?}, emitted {:04x?}", st.idx, attrs, app.iter().map(|a| a.0).collect::<Vec<_>>(), types),
            ));
        } else {
            // what follows the application attributes must be credential attributes of the mechanism
            for a in &body[app.len()..] {
                if !owned.contains(&a.typ) {
                    out.push(v(
                        "C13",
                        format!("C13/unexpected-attribute-after-application-list({:#06x},mech={})", a.typ, mech),
                        st.idx,
                        format!("step {}: emitted {:04x?} for application list {}", st.idx, types, attrs),
                    ));
                }
            }
            if matches!(l.cfg.mech, Mech::ShortTerm(_)) && !body[app.len()..].iter().any(|a| a.typ == wire::A_USERNAME) {
                out.push(v("C13", "C13/short-term-username-missing".into(), st.idx, format!("step {}", st.idx)));
            }
        }
        // integrity / fingerprint presence and validity
        let app_has = |t: u16| expected_app_list(&attrs).iter().any(|(x, _)| *x == t);
        let want_fp = l.cfg.fp || app_has(wire::A_FINGERPRINT);
        let fpv = wire::verify_fingerprint(b, &p);
        if want_fp && fpv != Verdict::Good {
            out.push(v("C13", format!("C13/fingerprint-{:?}(mech={})", fpv, mech), st.idx, format!("step {}: FINGERPRINT expected and must verify", st.idx)));
        }
        if !want_fp && fpv != Verdict::Absent {
            out.push(v("C13", "C13/unexpected-fingerprint".into(), st.idx, format!("step {}", st.idx)));
        }
        let key: Option<Vec<u8>> = match l.cfg.mech {
            Mech::None => Some(b"app-key".to_vec()),
            Mech::ShortTerm(_) => Some(l.cfg.pw().into_bytes()),
            Mech::LongTerm => lt_keys.key_for_request(st.idx, &p, &l.cfg),
        };
        for (t, name) in [(wire::A_MI, "MESSAGE-INTEGRITY"), (wire::A_MI256, "MESSAGE-INTEGRITY-SHA256")] {
            if p.count(t) > 0 {
                match &key {
                    Some(k) => {
                        if wire::verify_integrity(b, &p, t, k) != Verdict::Good {
                            out.push(v(
                                "C13",
                                format!("C13/emitted-{}-does-not-verify(mech={})", name, mech),
                                st.idx,
                                format!("step {}: emitted {} does not verify under the configured credentials (application list {})", st.idx, name, attrs),
                            ));
                        }
                    }
                    None => {}
                }
            }
            if matches!(l.cfg.mech, Mech::None) && (p.count(t) > 0) != app_has(t) {
                out.push(v("C13", format!("C13/integrity-presence-differs-from-application-list({})", name), st.idx, format!("step {}: list {}", st.idx, attrs)));
            }
        }
    }
    // retransmissions identical
    for tx in &l.txs {
        if let Some((_, _, first)) = tx.transmissions.first() {
            for (s, _, b) in tx.transmissions.iter().skip(1) {
                if b != first {
                    out.push(v("C13", "C13/retransmission-differs".into(), *s, format!("tx#{}: retransmission at step {} differs from the packet first sent", tx.k, s)));
                }
            }
        }
    }
    out
}

// ---------------------------------------------------------------------------------------------
// C08 long-term: observational tracker + predicates
// ---------------------------------------------------------------------------------------------

#[derive(Clone, Debug)]
pub struct LtCtx {
    pub realm: String,
    pub nonce: String,
    /// raw PASSWORD-ALGORITHMS value of the accepted 401 (None = not offered)
    pub algs_raw: Option<Vec<u8>>,
    pub anon: bool,
    pub pwd_bit: bool,
    /// algorithm observed in the client's requests after the challenge (None until seen)
    pub chosen: Option<u16>,
}

impl LtCtx {
    /// A realm that a conforming server cannot have sent (the reference server only sends ASCII realms, which
    /// OpaqueString leaves alone): it can only stem from damage in flight. What keys and hashes must be derived
    /// from such a realm is not defined by the properties, so key-dependent rules are not applied to it.
    pub fn exotic_realm(&self) -> bool {
        !self.realm.is_ascii()
    }
    pub fn kind(&self) -> Alg {
        if self.algs_raw.is_some() {
            Alg::Sha
        } else {
            Alg::Mi
        }
    }
    pub fn supported_offered(&self) -> Vec<u16> {
        match &self.algs_raw {
            None => vec![wire::ALG_MD5],
            Some(raw) => wire::password_algorithms_parse(raw)
                .unwrap_or_default()
                .iter()
                .map(|(a, _)| *a)
                .filter(|a| *a == wire::ALG_MD5 || *a == wire::ALG_SHA256)
                .collect(),
        }
    }
    pub fn candidate_keys(&self, cfg: &Cfg) -> Vec<Vec<u8>> {
        let algs = match self.chosen {
            Some(a) => vec![a],
            None => self.supported_offered(),
        };
        algs.iter().map(|a| wire::long_term_key(*a, &cfg.user, &self.realm, &cfg.pw())).collect()
    }
}

#[derive(Clone, Copy, Debug, PartialEq, Eq)]
pub enum LtState {
    First,
    Retry401,
    Retry438,
    Subsequent,
}

pub struct LtTrack {
    /// (from step, ctx, state): state in force for calls at step >= from
    pub timeline: Vec<(usize, Option<LtCtx>, LtState)>,
}

impl LtTrack {
    pub fn at(&self, step: usize) -> (Option<&LtCtx>, LtState) {
        let mut cur: (Option<&LtCtx>, LtState) = (None, LtState::First);
        for (from, c, s) in &self.timeline {
            if *from <= step {
                cur = (c.as_ref(), *s);
            } else {
                break;
            }
        }
        cur
    }
    /// Key to verify the integrity of a client request sent at `step`.
    pub fn key_for_request(&self, step: usize, req: &Parsed, cfg: &Cfg) -> Option<Vec<u8>> {
        let (ctx, _) = self.at(step);
        let ctx = ctx?;
        if ctx.exotic_realm() {
            return None;
        }
        let alg = match req.find(wire::A_PASSWORD_ALGORITHM).and_then(|a| wire::password_algorithms_parse(&a.value)) {
            Some(x) if !x.is_empty() => x[0].0,
            _ => ctx.chosen.unwrap_or_else(|| {
                if ctx.algs_raw.is_some() && ctx.supported_offered().contains(&wire::ALG_SHA256) {
                    wire::ALG_SHA256
                } else {
                    wire::ALG_MD5
                }
            }),
        };
        Some(wire::long_term_key(alg, &cfg.user, &ctx.realm, &cfg.pw()))
    }
}

/// Follows, observationally, which challenge the client has accepted (a `Retry` event after a
/// 401 / 438) and which request-forming situation it is in.
pub fn lt_track(l: &Ledger) -> LtTrack {
    let mut timeline: Vec<(usize, Option<LtCtx>, LtState)> = vec![(0, None, LtState::First)];
    if l.cfg.mech != Mech::LongTerm {
        return LtTrack { timeline };
    }
    let mut ctx: Option<LtCtx> = None;
    let mut state = LtState::First;
    let mut gen = 0;
    for st in &l.steps {
        if st.gen != gen {
            gen = st.gen;
            ctx = None;
            state = LtState::First;
            timeline.push((st.idx, None, state));
        }
        match &st.call {
            Call::SendRequest { .. } => {
                // learn the chosen algorithm from what the client sends
                let mut learned = None;
                if let Some(c) = ctx.as_ref() {
                    if c.chosen.is_none() {
                        for e in &st.events {
                            if let Ev::Output(b) = e {
                                if let Ok(p) = wire::parse(b) {
                                    if let Some(x) = p.find(wire::A_PASSWORD_ALGORITHM).and_then(|a| wire::password_algorithms_parse(&a.value)) {
                                        if !x.is_empty() {
                                            learned = Some(x[0].0);
                                        }
                                    }
                                }
                            }
                        }
                    }
                }
                if let (Some(a), Some(c)) = (learned, ctx.as_mut()) {
                    c.chosen = Some(a);
                    timeline.push((st.idx + 1, ctx.clone(), state));
                }
            }
            Call::Recv { bytes, .. } => {
                let Ok(p) = wire::parse(bytes) else { continue };
                if p.class < 2 {
                    continue;
                }
                let retried = st.events.iter().any(|e| matches!(e, Ev::Retry(id) if *id == p.txid));
                let deliv = delivered(st, &p.txid, 2);
                if retried {
                    match p.error_code() {
                        Some(401) => {
                            let nonce = p.string(wire::A_NONCE).unwrap_or_default();
                            let bits = wire::nonce_cookie_bits(&nonce).unwrap_or((false, false));
                            ctx = Some(LtCtx {
                                realm: p.string(wire::A_REALM).unwrap_or_default(),
                                nonce,
                                algs_raw: p.find(wire::A_PASSWORD_ALGORITHMS).map(|a| a.value.clone()),
                                anon: bits.1,
                                pwd_bit: bits.0,
                                chosen: None,
                            });
                            state = LtState::Retry401;
                        }
                        Some(438) => {
                            if let Some(c) = ctx.as_mut() {
                                c.nonce = p.string(wire::A_NONCE).unwrap_or_default();
                                // "USERHASH when the nonce cookie asks for anonymity": the cookie of the nonce now in force
                                let bits = wire::nonce_cookie_bits(&c.nonce).unwrap_or((false, false));
                                c.anon = bits.1;
                            }
                            state = LtState::Retry438;
                        }
                        _ => {}
                    }
                    timeline.push((st.idx + 1, ctx.clone(), state));
                } else if deliv {
                    state = LtState::Subsequent;
                    timeline.push((st.idx + 1, ctx.clone(), state));
                }
            }
            _ => {}
        }
    }
    LtTrack { timeline }
}

fn state_name(s: LtState) -> &'static str {
    match s {
        LtState::First => "First",
        LtState::Retry401 => "Retry401",
        LtState::Retry438 => "Retry438",
        LtState::Subsequent => "Subsequent",
    }
}

/// RFC 8489 section 9.2.4 (receiving a request), as an acceptance predicate. Returns the reject reason.
pub fn strict_server_accepts(b: &[u8], p: &Parsed, ctx: &LtCtx, cfg: &Cfg) -> Result<(), &'static str> {
    let has_mi = p.count(wire::A_MI) > 0;
    let has_sha = p.count(wire::A_MI256) > 0;
    let has_user = p.count(wire::A_USERNAME) > 0;
    let has_hash = p.count(wire::A_USERHASH) > 0;
    if !has_mi && !has_sha {
        return Err("no-integrity");
    }
    if !has_user && !has_hash {
        return Err("no-user");
    }
    if p.count(wire::A_REALM) == 0 || p.count(wire::A_NONCE) == 0 {
        return Err("no-realm-nonce");
    }
    let pa = p.find(wire::A_PASSWORD_ALGORITHM);
    let pas = p.find(wire::A_PASSWORD_ALGORITHMS);
    let mut key_alg = wire::ALG_MD5;
    if let Some(offered) = &ctx.algs_raw {
        match (pas, pa) {
            (None, None) => {
                // processed as though PASSWORD-ALGORITHM were MD5
                key_alg = wire::ALG_MD5;
                // the integrity check below decides; give the specific reason if it fails
            }
            (Some(l), Some(a)) => {
                // compared as lists of (algorithm, parameters): padding bytes inside the list are not content
                if wire::password_algorithms_parse(&l.value) != wire::password_algorithms_parse(offered)
                    || wire::password_algorithms_parse(offered).is_none()
                {
                    return Err("password-algorithm-mismatch");
                }
                let list = wire::password_algorithms_parse(offered).unwrap_or_default();
                let alg = wire::password_algorithms_parse(&a.value).unwrap_or_default();
                if alg.len() != 1 || !list.contains(&alg[0]) {
                    return Err("password-algorithm-mismatch");
                }
                key_alg = alg[0].0;
            }
            _ => return Err("password-algorithm-mismatch"),
        }
    } else if pa.is_some() || pas.is_some() {
        return Err("password-algorithm-unsolicited");
    }
    if p.string(wire::A_NONCE).as_deref() != Some(ctx.nonce.as_str()) {
        return Err("stale-nonce");
    }
    if p.string(wire::A_REALM).as_deref() != Some(ctx.realm.as_str()) {
        return Err("wrong-realm");
    }
    if ctx.anon {
        if !has_hash || has_user {
            return Err("user-form");
        }
        if p.find(wire::A_USERHASH).map(|a| a.value.clone()) != Some(wire::user_hash(&cfg.user, &ctx.realm)) {
            return Err("user-form");
        }
    } else {
        if !has_user || has_hash {
            return Err("user-form");
        }
        if p.string(wire::A_USERNAME).as_deref() != Some(cfg.user.as_str()) {
            return Err("user-form");
        }
    }
    let want_kind = if ctx.algs_raw.is_some() { wire::A_MI256 } else { wire::A_MI };
    if (want_kind == wire::A_MI256 && !has_sha) || (want_kind == wire::A_MI && !has_mi) {
        return Err("integrity-kind");
    }
    if (want_kind == wire::A_MI256 && has_mi) || (want_kind == wire::A_MI && has_sha) {
        return Err("integrity-kind");
    }
    let key = wire::long_term_key(key_alg, &cfg.user, &ctx.realm, &cfg.pw());
    if wire::verify_integrity(b, p, want_kind, &key) != Verdict::Good {
        if ctx.algs_raw.is_some() && pa.is_none() && pas.is_none() {
            return Err("no-password-algorithm");
        }
        return Err("bad-mac");
    }
    Ok(())
}

fn contains_sub(hay: &[u8], needle: &[u8]) -> bool {
    !needle.is_empty() && hay.windows(needle.len()).any(|w| w == needle)
}

/// Text every conforming decoder must take as the value of REALM / NONCE: 1-127 printable ASCII characters
/// without the two that need quoting.
fn plain_qtext(s: Option<&str>) -> bool {
    match s {
        Some(s) => !s.is_empty() && s.len() <= 127 && s.bytes().all(|b| (0x20..=0x7e).contains(&b) && b != b'"' && b != b'\\'),
        None => false,
    }
}

pub fn check_c08(l: &Ledger) -> Vec<Violation> {
    let mut out = vec![];
    if l.cfg.mech != Mech::LongTerm {
        return out;
    }
    let rel = l.cfg.is_reliable();
    let tname = transport_name(l);
    let track = lt_track(l);
    let pw_prepared = l.cfg.pw();
    let pw = pw_prepared.as_bytes();
    let pw_raw = l.cfg.password.as_bytes();
    for st in &l.steps {
        let (ctx, state) = track.at(st.idx);
        match &st.call {
            Call::SendIndication { .. } => {
                if !is_err(st) || !st.events.is_empty() {
                    out.push(v(
                        "C08",
                        "C08/send-indication-not-refused".into(),
                        st.idx,
                        format!("step {}: send_indication with long-term credentials returned {:?} with {} event(s)", st.idx, st.result, st.events.len()),
                    ));
                }
            }
            Call::SendRequest { attrs, .. } => {
                if !matches!(st.result, CallResult::OkId(_)) {
                    continue;
                }
                for e in &st.events {
                    let Ev::Output(b) = e else { continue };
                    if (pw.len() >= 6 && contains_sub(b, pw)) || (pw_raw.len() >= 6 && contains_sub(b, pw_raw)) {
                        out.push(v("C08", "C08/password-on-the-wire".into(), st.idx, format!("step {}: the emitted packet contains the password bytes", st.idx)));
                    }
                    let Ok(p) = wire::parse(b) else { continue };
                    match ctx {
                        None => {
                            for t in LT_OWNED.iter().chain([wire::A_MI, wire::A_MI256].iter()) {
                                if p.count(*t) > 0 {
                                    out.push(v(
                                        "C08",
                                        format!("C08/first-request-carries-credential-attribute({:#06x})", t),
                                        st.idx,
                                        format!("step {}: before any challenge was accepted the request carries attribute {:#06x} (application list {})", st.idx, t, attrs),
                                    ));
                                }
                            }
                        }
                        Some(c) if c.exotic_realm() => {}
                        Some(c) => {
                            if let Err(reason) = strict_server_accepts(b, &p, c, &l.cfg) {
                                out.push(v(
                                    "C08",
                                    format!("C08/strict-server-rejects({},state={})", reason, state_name(state)),
                                    st.idx,
                                    format!(
                                        "step {}: a server following RFC 8489 9.2.4 rejects this request ({}); client situation {}, accepted realm {:?} nonce {:?} algorithms offered {}; emitted attribute types {:04x?}",
                                        st.idx,
                                        reason,
                                        state_name(state),
                                        c.realm,
                                        c.nonce,
                                        c.algs_raw.is_some(),
                                        p.types()
                                    ),
                                ));
                            }
                        }
                    }
                }
            }
            Call::Recv { bytes, fault, .. } => {
                let Some(s) = see(bytes) else { continue };
                if s.p.class == wire::C_REQUEST || !passes_fp_stage(l, &s) {
                    continue;
                }
                let id = s.p.txid;
                if s.p.class == wire::C_INDICATION {
                    if !is_err(st) || !st.events.is_empty() {
                        out.push(v(
                            "C08",
                            "C08/received-indication-not-refused".into(),
                            st.idx,
                            format!("step {}: indication received with long-term credentials returned {:?} with {} event(s)", st.idx, st.result, st.events.len()),
                        ));
                    }
                    continue;
                }
                if !l.txs.iter().any(|t| t.id == id && t.gen == st.gen && t.awaiting_before(st.idx)) {
                    continue;
                }
                if !fault.is_empty() && !crate::libtap::decodes(bytes) {
                    continue;
                }
                // "must retry / must deliver" is only demanded of messages as the reference server built
                // them; for messages damaged in flight only the safety rules apply (a damaged challenge may
                // carry an empty realm, a nonce that is no longer a quoted-string, ...)
                // the same holds for what a hostile server personality builds on purpose (over-long or non-UTF-8
                // strings, reason phrases beyond the limit): the world marks those replies (`srv-hostile`) in the
                // ledger's fault field. Replies of every other personality must be decodable: a decoder that
                // refuses one of them shows up here as a missing Retry / delivery
                let corrupted = !fault.is_empty();
                if ctx.map_or(false, |c| c.exotic_realm()) {
                    continue;
                }
                let got = delivered(st, &id, 2);
                let retried = st.events.iter().any(|e| matches!(e, Ev::Retry(i) if *i == id));
                let dnr = failed_with(st, &id, Why::DoNotRetry);
                let pv = failed_with(st, &id, Why::ProtectionViolated);
                let code = if s.p.class == wire::C_ERROR { s.p.error_code() } else { None };
                let verifies = |c: &LtCtx, kind: Alg| -> bool {
                    let t = if kind == Alg::Sha { wire::A_MI256 } else { wire::A_MI };
                    c.candidate_keys(&l.cfg).iter().any(|k| wire::verify_integrity(bytes, &s.p, t, k) == Verdict::Good)
                };
                let verifies_chosen = |c: &LtCtx, kind: Alg| -> bool { c.chosen.is_some() && verifies(c, kind) };
                let not_deliverable_ok = ignored(st) || (rel && pv && !got && !retried) || dnr;
                if s.p.class == wire::C_ERROR && code.is_none() {
                    if got || retried {
                        out.push(v("C08", "C08/error-response-without-error-code-accepted".into(), st.idx, format!("step {}: {:?} {:?}", st.idx, st.result, st.events)));
                    }
                    continue;
                }
                match code {
                    Some(401) => {
                        let realm = s.p.string(wire::A_REALM);
                        let nonce = s.p.string(wire::A_NONCE);
                        let algs = s.p.find(wire::A_PASSWORD_ALGORITHMS);
                        let bits = nonce.as_deref().and_then(wire::nonce_cookie_bits).unwrap_or((false, false));
                        let supported = algs.map(|a| {
                            wire::password_algorithms_parse(&a.value)
                                .map(|v| v.iter().any(|(x, _)| *x == wire::ALG_MD5 || *x == wire::ALG_SHA256))
                                .unwrap_or(false)
                        });
                        let wellformed = realm.is_some() && nonce.is_some() && supported != Some(false) && !(bits.0 && algs.is_none());
                        if got {
                            out.push(v("C08", "C08/401-delivered-to-application".into(), st.idx, format!("step {}: a 401 challenge was delivered as a message", st.idx)));
                        }
                        if !wellformed {
                            if retried {
                                let why = if realm.is_none() || nonce.is_none() {
                                    "missing-realm-or-nonce"
                                } else if supported == Some(false) {
                                    "no-supported-algorithm"
                                } else {
                                    "cookie-bit-without-algorithms"
                                };
                                out.push(v("C08", format!("C08/retry-on-malformed-401({})", why), st.idx, format!("step {}: Retry although the challenge cannot be answered [{}]", st.idx, fault)));
                            }
                        } else if !s.has_mi && !s.has_sha {
                            // (a challenge whose REALM / NONCE is not plain quoted-string text of a legal length is the
                            // hostile-server family: whether the library's grammar takes it is not a subject of C08)
                            if !retried && !corrupted && plain_qtext(realm.as_deref()) && plain_qtext(nonce.as_deref()) {
                                out.push(v(
                                    "C08",
                                    format!("C08/no-retry-on-wellformed-401(state={},{})", state_name(state), tname),
                                    st.idx,
                                    format!("step {}: a well-formed 401 must yield Retry; got {:?} {:?}", st.idx, st.result, st.events),
                                ));
                            }
                        } else {
                            // 401 with integrity: Retry only if it verifies under the key derived from this response
                            let c = LtCtx {
                                realm: realm.clone().unwrap_or_default(),
                                nonce: nonce.clone().unwrap_or_default(),
                                algs_raw: algs.map(|a| a.value.clone()),
                                anon: bits.1,
                                pwd_bit: bits.0,
                                chosen: None,
                            };
                            let ok = verifies(&c, c.kind());
                            if retried && !ok {
                                out.push(v("C08", "C08/retry-on-401-with-bad-integrity".into(), st.idx, format!("step {} [{}]", st.idx, fault)));
                            }
                        }
                    }
                    Some(438) => {
                        let nonce = s.p.string(wire::A_NONCE);
                        if got {
                            out.push(v("C08", "C08/438-delivered-to-application".into(), st.idx, format!("step {}", st.idx)));
                        }
                        let bits438 = nonce.as_deref().and_then(wire::nonce_cookie_bits).unwrap_or((false, false));
                        let algs438 = s.p.find(wire::A_PASSWORD_ALGORITHMS);
                        let unsupported438 = algs438.map_or(false, |a| {
                            !wire::password_algorithms_parse(&a.value)
                                .map(|v| v.iter().any(|(x, _)| *x == wire::ALG_MD5 || *x == wire::ALG_SHA256))
                                .unwrap_or(false)
                        });
                        if (bits438.0 && algs438.is_none()) || unsupported438 {
                            // RFC 8489 9.2.5: such a response must be ignored
                            if retried {
                                out.push(v("C08", "C08/retry-on-438-with-unusable-algorithms".into(), st.idx, format!("step {} [{}]", st.idx, fault)));
                            }
                            continue;
                        }
                        match (ctx, nonce.clone()) {
                            (Some(c), Some(_)) => {
                                let has_int = s.has_mi || s.has_sha;
                                if !has_int {
                                    if !retried && !corrupted && plain_qtext(nonce.as_deref()) && s.p.string(wire::A_REALM).map_or(true, |r| plain_qtext(Some(&r))) {
                                        out.push(v(
                                            "C08",
                                            format!("C08/no-retry-on-438(state={},{})", state_name(state), tname),
                                            st.idx,
                                            format!("step {}: a 438 with a new nonce must yield Retry; got {:?} {:?}", st.idx, st.result, st.events),
                                        ));
                                    }
                                } else if retried && !verifies(c, c.kind()) {
                                    out.push(v("C08", "C08/retry-on-438-with-bad-integrity".into(), st.idx, format!("step {} [{}]", st.idx, fault)));
                                }
                            }
                            _ => {
                                if retried {
                                    out.push(v(
                                        "C08",
                                        format!("C08/retry-on-unusable-438({})", if ctx.is_none() { "no-credentials-yet" } else { "no-nonce" }),
                                        st.idx,
                                        format!("step {} [{}]", st.idx, fault),
                                    ));
                                }
                            }
                        }
                    }
                    _ => {
                        // success or ordinary error
                        if retried {
                            out.push(v("C08", "C08/retry-on-ordinary-response".into(), st.idx, format!("step {}: Retry for a response that is neither 401 nor 438", st.idx)));
                        }
                        let what = if s.p.class == wire::C_SUCCESS { "success" } else { "error" };
                        match ctx {
                            None => {
                                if got {
                                    out.push(v(
                                        "C08",
                                        format!("C08/unauthenticated-{}-delivered(no-credentials-yet)", what),
                                        st.idx,
                                        format!("step {}: delivered before any challenge was accepted [{}]", st.idx, fault),
                                    ));
                                } else if !not_deliverable_ok {
                                    out.push(v("C08", format!("C08/undeliverable-{}-unexpected-outcome({})", what, tname), st.idx, format!("step {}: {:?} {:?}", st.idx, st.result, st.events)));
                                }
                            }
                            Some(c) => {
                                let k = c.kind();
                                let (has_k, has_other) = if k == Alg::Sha { (s.has_sha, s.has_mi) } else { (s.has_mi, s.has_sha) };
                                let ok_any = has_k && verifies(c, k);
                                let ok_chosen = has_k && verifies_chosen(c, k);
                                if got && !ok_any {
                                    out.push(v(
                                        "C08",
                                        format!("C08/unauthenticated-{}-delivered(state={},has_k={},has_other={})", what, state_name(state), has_k, has_other),
                                        st.idx,
                                        format!("step {}: delivered although its integrity attribute of the agreed kind is absent or does not verify under the long-term key [{}]", st.idx, fault),
                                    ));
                                }
                                if !got && ok_chosen && !has_other && !corrupted {
                                    out.push(v(
                                        "C08",
                                        format!("C08/authenticated-{}-not-delivered(state={},{})", what, state_name(state), tname),
                                        st.idx,
                                        format!("step {}: verifies under the long-term key but was not delivered: {:?} {:?}", st.idx, st.result, st.events),
                                    ));
                                }
                                if !got && !ok_any && !not_deliverable_ok {
                                    out.push(v("C08", format!("C08/undeliverable-{}-unexpected-outcome({})", what, tname), st.idx, format!("step {}: {:?} {:?}", st.idx, st.result, st.events)));
                                }
                            }
                        }
                    }
                }
            }
            _ => {}
        }
    }
    out
}
