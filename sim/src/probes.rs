//! "This rare condition was hit" probes, computed from the ledger of every run and summed in the
//! evidence. A probe stuck at zero means the workload or fault mix must change.

use crate::ledger::*;
use crate::oracle_tx::schedule;
use crate::wire;

pub fn probes_of(l: &Ledger) -> Vec<&'static str> {
    let mut p: Vec<&'static str> = vec![];
    let (rc, rm, _) = l.cfg.rc_rm_rto();
    let mut seen_bytes: Vec<&Vec<u8>> = vec![];
    let mut prev_cred: Option<&str> = None;
    for st in &l.steps {
        if st.phase == Phase::Probe {
            continue;
        }
        match &st.call {
            Call::Recv { bytes, .. } => {
                if seen_bytes.iter().any(|b| *b == bytes) {
                    p.push("duplicate_buffer_delivered");
                }
                seen_bytes.push(bytes);
                if let Ok(m) = wire::parse(bytes) {
                    let types = m.types();
                    let adm = wire::admitted(&types);
                    if m.class >= 2 {
                        if let Some(tx) = l.txs.iter().rev().find(|t| t.id == m.txid && t.gen == st.gen) {
                            if tx.final_step().map_or(false, |f| f < st.idx) {
                                p.push("late_response_after_final");
                                if matches!(tx.finals[0].2, Outcome::Failed(Why::TimedOut) | Outcome::Failed(Why::ProtectionViolated)) {
                                    p.push("response_after_timeout_failure");
                                }
                            }
                        } else {
                            p.push("response_for_unknown_id");
                        }
                        if types.contains(&wire::A_MI) && types.contains(&wire::A_MI256) && adm.iter().zip(types.iter()).filter(|(a, t)| **a && (**t == wire::A_MI || **t == wire::A_MI256)).count() == 2 {
                            p.push("both_integrity_in_response");
                        }
                    }
                    if let Some(i) = types.iter().position(|t| *t == wire::A_FINGERPRINT) {
                        if i + 1 < types.len() {
                            p.push("attributes_after_fingerprint");
                        }
                    }
                    if adm.iter().any(|a| !*a) {
                        p.push("inadmissible_attribute_on_the_wire");
                    }
                    if m.class == wire::C_INDICATION {
                        p.push(if matches!(st.result, CallResult::Ok) { "indication_delivered" } else { "indication_rejected" });
                    }
                } else {
                    p.push("unparseable_buffer_delivered");
                }
                if matches!(st.result, CallResult::Err(_)) {
                    p.push("rejected_buffer");
                }
                for e in &st.events {
                    match e {
                        Ev::Retry(_) => {
                            let code = wire::parse(bytes).ok().and_then(|m| m.error_code());
                            p.push(if code == Some(438) { "retry_after_438" } else { "retry_after_401" });
                        }
                        Ev::Failed(_, Why::DoNotRetry) => p.push("do_not_retry"),
                        Ev::Failed(_, Why::ProtectionViolated) => p.push("protection_violated_immediately(reliable)"),
                        _ => {}
                    }
                }
            }
            Call::Timeout { spurious, .. } => {
                let mut named = std::collections::BTreeSet::new();
                for e in &st.events {
                    match e {
                        Ev::Output(b) if b.len() >= 20 => {
                            named.insert(b[8..20].to_vec());
                        }
                        Ev::Failed(id, w) => {
                            named.insert(id.to_vec());
                            if *w == Why::ProtectionViolated {
                                p.push("time_out_reported_as_protection_violated");
                            }
                            if *w == Why::TimedOut {
                                p.push("time_out_failure");
                            }
                        }
                        _ => {}
                    }
                }
                if named.len() >= 2 {
                    p.push("two_expiries_served_by_one_call");
                }
                if *spurious {
                    p.push("spurious_timer_call");
                }
                // lateness relative to schedules
                let mut acted = false;
                for tx in l.txs.iter().filter(|t| t.gen == st.gen && t.awaiting_before(st.idx)) {
                    let sch = schedule(tx.t0, tx.rto_ns, rc, rm);
                    let tau = tx.transmissions.iter().filter(|(s, _, _)| *s < st.idx).map(|(_, t, _)| *t).last().unwrap_or(tx.t0);
                    let exp = sch.pending(tau);
                    if st.t >= exp {
                        acted = true;
                        if st.t > exp {
                            p.push("timer_call_late");
                        }
                        // a slot was skipped: there is a later slot that is also already in the past
                        if sch.slots.iter().any(|s| *s > exp && *s <= st.t) {
                            p.push("timer_skipped_slots");
                        }
                        if st.t >= sch.deadline && st.t > exp && exp != sch.deadline {
                            p.push("late_call_beyond_deadline");
                        }
                    }
                }
                if !acted && !st.events.iter().any(|e| matches!(e, Ev::Output(_) | Ev::Failed(..))) {
                    p.push("timer_call_before_any_expiry");
                }
            }
            Call::SendRequest { buf_len, .. } => {
                match &st.result {
                    CallResult::Err(ErrKind::MaxOutstanding) => p.push("refused_at_limit"),
                    CallResult::Err(ErrKind::Internal(_)) if *buf_len < 200 => p.push("send_failed_short_buffer"),
                    CallResult::OkId(_) => {
                        if st.snap.outstanding.len() >= 3 {
                            p.push("three_or_more_concurrent_requests");
                        }
                        if st.snap.outstanding.len() > 10 {
                            p.push("more_than_ten_concurrent_requests");
                        }
                        if let Some(Ev::Timer(_, 0)) = st.events.last() {
                            p.push("notification_zero_overdue_at_send");
                        }
                    }
                    _ => {}
                }
            }
            Call::SendIndication { .. } => {
                if matches!(st.result, CallResult::OkId(_)) {
                    p.push("indication_sent");
                }
            }
            Call::Restart => p.push("client_restart"),
        }
        if st.snap.violated.len() > 10 {
            p.push("more_than_ten_requests_marked_by_rejected_responses");
        }
        let cred = st.snap.cred.as_str();
        if let Some(pc) = prev_cred {
            if pc.contains("integrity=None") && cred.contains("integrity=Some") {
                p.push("short_term_algorithm_learned");
            }
            if pc.contains("state=FirstRequest") && cred.contains("state=Retry") {
                p.push("long_term_first_challenge_accepted");
            }
            if pc.contains("state=SubsequentRequest") && cred.contains("state=Retry") {
                p.push("long_term_challenge_in_mid_session");
            }
        }
        prev_cred = Some(cred);
    }
    if let Some(app) = l.fresh_probe_app {
        if l.txs.iter().any(|t| t.app == app && matches!(t.finals.first(), Some((_, _, Outcome::Delivered(2))))) {
            p.push("fresh_request_delivered_after_faults_stopped");
        }
    }
    if l.truncated {
        p.push("run_hit_step_cap");
    }
    p.sort();
    p.dedup();
    p
}
