//! C16: the reliable transport. A byte stream (concatenation of STUN packets) is cut into chunks by
//! the simulated stream network and fed, in order, to the controller's read loop around the real
//! `StunPacketDecoder`; an independent model says what every call must return.

use crate::ledger::*;
use crate::plan::*;
use crate::prng::Rng;
use crate::runner::{CheckArgs, ExtraResult, PropSpec};
use crate::util::hash_of;
use crate::wire;
use crate::world::{self, RunOpts, RunResult};
use std::panic::{catch_unwind, AssertUnwindSafe};
use stun_agent::{StunPacketDecodedValue, StunPacketDecoder, StunPacketErrorType};

fn v(key: String, step: usize, detail: String) -> Violation {
    Violation { prop: "C16", key, step, detail }
}

#[derive(Clone, Debug, PartialEq, Eq, Hash)]
pub enum Res {
    Decoded { packet: Vec<u8>, consumed: usize },
    More(Option<usize>),
    Err { small: bool, size: usize, consumed: usize, buf_len: usize, prefix_ok: bool },
    NewFailed,
    Panic(String),
}

/// Builds one packet with exactly `attr_len` attribute bytes (multiple of 4).
pub fn build_packet(rng: &mut Rng, attr_len: usize) -> Vec<u8> {
    let mut id = [0u8; 12];
    id.copy_from_slice(&rng.bytes(12));
    let class = rng.below(4) as u8;
    let method = *rng.pick(&[1u16, 1, 3, 0x0ff, 0x0fff]);
    let mut b = wire::Builder::new(class, method, &id);
    let mut left = attr_len / 4 * 4;
    while left > 0 {
        // attribute of `take` bytes in total (header 4 + value + padding)
        let take = if left <= 8 || rng.chance(1, 3) { left } else { (rng.range(1, (left / 4) as u64) * 4) as usize };
        let vmax = take - 4;
        // value length with padded size == vmax (so that the attribute occupies exactly `take` bytes)
        let r = rng.below(4) as usize;
        let vlen = if vmax >= 4 { vmax - r } else { vmax };
        debug_assert!(wire::pad4(vlen) == vmax);
        let typ = *rng.pick(&[wire::A_SOFTWARE, 0xC001, 0x8022, 0x0006]);
        let val: Vec<u8> = (0..vlen).map(|i| b'a' + (i % 26) as u8).collect();
        b.push_attr(typ, &val);
        left -= take;
    }
    b.finish()
}

#[derive(Clone, Debug)]
pub struct StreamCase {
    pub packets: Vec<Vec<u8>>,
    pub buf_size: usize,
    pub fill: u8,
}

impl StreamCase {
    pub fn stream(&self) -> Vec<u8> {
        self.packets.concat()
    }
}

fn header_valid(h: &[u8]) -> bool {
    h.len() >= 20 && h[0] & 0xC0 == 0 && h[4..8] == wire::MAGIC
}

/// The model: what feeding `data` must return when `have` bytes of the current packet (which starts at
/// `start` in `stream`) were supplied before.
fn model(stream: &[u8], start: usize, have: usize, data_len: usize, buf: usize) -> Res {
    let avail = have + data_len;
    if have < 20 {
        if avail < 20 {
            return Res::More(None);
        }
        let h = &stream[start..start + 20];
        if !header_valid(h) {
            return Res::Err { small: false, size: 20, consumed: 20 - have, buf_len: buf, prefix_ok: true };
        }
        let total = 20 + u16::from_be_bytes([h[2], h[3]]) as usize;
        if total > buf {
            return Res::Err { small: true, size: 20, consumed: 20 - have, buf_len: buf, prefix_ok: true };
        }
        if avail >= total {
            Res::Decoded { packet: stream[start..start + total].to_vec(), consumed: total - have }
        } else {
            Res::More(Some(total - avail))
        }
    } else {
        let h = &stream[start..start + 20];
        let total = 20 + u16::from_be_bytes([h[2], h[3]]) as usize;
        if avail >= total {
            Res::Decoded { packet: stream[start..start + total].to_vec(), consumed: total - have }
        } else {
            Res::More(Some(total - avail))
        }
    }
}

/// Feeds the chunks to the real decoder through the read loop; returns (real results, model results).
pub fn feed(case: &StreamCase, cuts: &[usize]) -> (Vec<Res>, Vec<Res>) {
    let stream = case.stream();
    let mut bounds: Vec<usize> = cuts.iter().map(|c| (*c).min(stream.len())).collect();
    bounds.sort();
    let mut chunks: Vec<(usize, usize)> = vec![];
    let mut prev = 0;
    for b in bounds {
        chunks.push((prev, b));
        prev = b;
    }
    chunks.push((prev, stream.len()));
    let mut real = vec![];
    let mut exp = vec![];
    let new_dec = |real: &mut Vec<Res>| -> Option<StunPacketDecoder> {
        match catch_unwind(AssertUnwindSafe(|| StunPacketDecoder::new(vec![case.fill; case.buf_size]))) {
            Ok(Ok(d)) => Some(d),
            Ok(Err(_)) => {
                real.push(Res::NewFailed);
                None
            }
            Err(_) => {
                real.push(Res::Panic(world::take_panic_loc()));
                None
            }
        }
    };
    if case.buf_size < 20 {
        exp.push(Res::NewFailed);
        let _ = new_dec(&mut real);
        return (real, exp);
    }
    let mut dec = new_dec(&mut real);
    let mut start = 0usize; // start of the current packet in the stream
    let mut have = 0usize; // bytes of the current packet supplied so far
    'outer: for (a, b) in chunks {
        let mut off = a;
        loop {
            let data = &stream[off..b];
            let Some(d) = dec.take() else { break 'outer };
            exp.push(model(&stream, start, have, data.len(), case.buf_size));
            let r = catch_unwind(AssertUnwindSafe(|| d.decode(data)));
            match r {
                Err(_) => {
                    real.push(Res::Panic(world::take_panic_loc()));
                    break 'outer;
                }
                Ok(Ok(StunPacketDecodedValue::Decoded((pkt, consumed)))) => {
                    real.push(Res::Decoded { packet: pkt.as_ref().to_vec(), consumed });
                    // any divergence (kind, packet bytes or consumed count) ends the feed: it is what gets
                    // reported, and past it `start`/`have` would no longer describe the real decoder
                    if real.last() != exp.last() || consumed > data.len() {
                        break 'outer;
                    }
                    off += consumed;
                    start += have + consumed;
                    have = 0;
                    dec = new_dec(&mut real);
                    if off >= b {
                        break;
                    }
                }
                Ok(Ok(StunPacketDecodedValue::MoreBytesNeeded((d2, n)))) => {
                    real.push(Res::More(n));
                    // the first divergence is what gets reported; past it the model's bookkeeping (`have`)
                    // no longer describes the real decoder, so stop here instead of feeding on
                    if real.last() != exp.last() {
                        break 'outer;
                    }
                    have += data.len();
                    dec = Some(d2);
                    break;
                }
                Ok(Err(e)) => {
                    let prefix_ok = e.size <= e.buffer.len() && start + e.size <= stream.len() && e.buffer[..e.size] == stream[start..start + e.size];
                    real.push(Res::Err {
                        small: matches!(e.error_type, StunPacketErrorType::SmallBuffer),
                        size: e.size,
                        consumed: e.consumed,
                        buf_len: e.buffer.len(),
                        prefix_ok,
                    });
                    break 'outer;
                }
            }
        }
    }
    (real, exp)
}

fn first_diff(real: &[Res], exp: &[Res]) -> Option<usize> {
    let n = real.len().max(exp.len());
    (0..n).find(|&i| real.get(i) != exp.get(i))
}

fn res_kind(r: Option<&Res>) -> &'static str {
    match r {
        None => "nothing",
        Some(Res::Decoded { .. }) => "Decoded",
        Some(Res::More(None)) => "MoreBytesNeeded(None)",
        Some(Res::More(Some(_))) => "MoreBytesNeeded(Some)",
        Some(Res::Err { small: true, .. }) => "Err(SmallBuffer)",
        Some(Res::Err { small: false, .. }) => "Err(InvalidStunPacket)",
        Some(Res::NewFailed) => "new() failed",
        Some(Res::Panic(_)) => "panic",
    }
}

/// Position class of a cut relative to header / packet boundaries.
fn cut_class(case: &StreamCase, cut: usize) -> u8 {
    let mut start = 0;
    for (k, p) in case.packets.iter().enumerate() {
        let end = start + p.len();
        if cut == start {
            return if k == 0 { 0 } else { 1 }; // stream start / packet boundary
        }
        if cut < end {
            let o = cut - start;
            return if o < 20 {
                if k == 0 {
                    2
                } else {
                    3
                }
            } else if o == 20 {
                4
            } else {
                5
            };
        }
        start = end;
    }
    6 // end of stream
}

pub fn compare(case: &StreamCase, cuts: &[usize], label: &str) -> Vec<Violation> {
    let (real, exp) = feed(case, cuts);
    let mut out = vec![];
    if let Some(i) = first_diff(&real, &exp) {
        let (r, e) = (real.get(i), exp.get(i));
        let key = match (r, e) {
            (Some(Res::Panic(loc)), _) => format!("C16/panic({})", loc),
            (Some(Res::Decoded { packet: rp, consumed: rc }), Some(Res::Decoded { packet: ep, consumed: ec })) => {
                if rp != ep {
                    "C16/decoded-packet-differs".to_string()
                } else if rc != ec {
                    "C16/wrong-consumed-count".to_string()
                } else {
                    "C16/decoded-differs".to_string()
                }
            }
            (Some(Res::More(Some(_))), Some(Res::More(Some(_)))) => "C16/wrong-missing-byte-count".to_string(),
            (Some(Res::Err { small: a, .. }), Some(Res::Err { small: b, .. })) if a == b => "C16/error-fields-differ(size/consumed/buffer)".to_string(),
            _ => format!("C16/unexpected-result(got={},expected={})", res_kind(r), res_kind(e)),
        };
        out.push(v(
            key,
            i,
            format!(
                "{}: packets {:?} buffer {} cuts {:?}: call #{} returned {:?}, the model expects {:?}",
                label,
                case.packets.iter().map(|p| p.len()).collect::<Vec<_>>(),
                case.buf_size,
                cuts,
                i,
                short(r),
                short(e)
            ),
        ));
    }
    out
}

fn short(r: Option<&Res>) -> String {
    match r {
        Some(Res::Decoded { packet, consumed }) => format!("Decoded(len {}, consumed {})", packet.len(), consumed),
        other => format!("{:?}", other),
    }
}

fn parse_list(s: &str) -> Vec<usize> {
    if s.is_empty() || s == "-" {
        return vec![];
    }
    s.split(',').filter_map(|x| x.parse().ok()).collect()
}

fn fmt_list(v: &[usize]) -> String {
    if v.is_empty() {
        "-".to_string()
    } else {
        v.iter().map(|x| x.to_string()).collect::<Vec<_>>().join(",")
    }
}

fn case_from(kv: &Kv) -> StreamCase {
    let lens = parse_list(&kv_str(kv, "lens", "0"));
    let mut rng = Rng::new(kv_u64(kv, "pseed", 1));
    let mut packets: Vec<Vec<u8>> = lens.iter().map(|l| build_packet(&mut rng, *l)).collect();
    // optional damage of one header (garbage between packets)
    let bad = kv_i64(kv, "bad", -1);
    if bad >= 0 && (bad as usize) < packets.len() {
        let p = &mut packets[bad as usize];
        match kv_u64(kv, "badkind", 0) {
            0 => p[4] ^= 0xff,
            1 => p[0] |= 0x80,
            2 => p[7] = p[7].wrapping_add(1),
            3 => p[0] |= 0x40,
            // a valid header announcing (almost) the largest possible message: never completed by this stream
            4 => {
                p[2] = 0xff;
                p[3] = 0xff;
            }
            _ => {
                p[2] = 0xff;
                p[3] = 0xfc;
            }
        }
    }
    let maxp = packets.iter().map(|p| p.len()).max().unwrap_or(20) as i64;
    let mut buf = (maxp + kv_i64(kv, "slack", 0)).max(0) as usize;
    if bad >= 0 && kv_u64(kv, "badkind", 0) >= 4 && kv_i64(kv, "slack", 0) > 0 {
        // room for the announced (never completed) 64 KiB message
        buf = 70_000;
    }
    StreamCase { packets, buf_size: buf, fill: kv_u64(kv, "fill", 0) as u8 }
}

fn gen_cuts(rng: &mut Rng, case: &StreamCase) -> Vec<usize> {
    let total = case.stream().len();
    if rng.chance(1, 20) {
        // byte by byte
        return (1..total).collect();
    }
    let n = rng.below(10) as usize;
    let mut cuts = vec![];
    let mut starts = vec![0usize];
    let mut acc = 0;
    for p in &case.packets {
        acc += p.len();
        starts.push(acc);
    }
    for _ in 0..n {
        let c = match rng.below(6) {
            0 => rng.below(total as u64 + 1) as usize,
            1 => {
                // inside or at the edge of some packet's header
                let s = *rng.pick(&starts);
                (s + rng.below(22) as usize).min(total)
            }
            2 => {
                let s = *rng.pick(&starts);
                s.saturating_sub(rng.below(3) as usize)
            }
            3 => *rng.pick(&starts),
            4 => cuts.last().copied().unwrap_or(0), // repeated cut = empty chunk
            _ => rng.below(total as u64 + 1) as usize,
        };
        cuts.push(c.min(total));
    }
    cuts
}

/// One C16 run: a generated stream under two generated chunkings.
pub fn run_stream(src: &mut Source, _spec: &PropSpec, _opts: &RunOpts) -> RunResult {
    let line = src.decide("stream", |rng| {
        let n = rng.range(1, 3) as usize;
        let lens: Vec<usize> = (0..n)
            .map(|_| match rng.below(6) {
                0 => 0,
                1 => 4 * rng.below(4) as usize,
                2 => 4 * rng.below(30) as usize,
                3 => 4 * rng.below(250) as usize,
                4 => 1000,
                _ => 4 * rng.below(12) as usize,
            })
            .collect();
        let slack = match rng.below(8) {
            0 => -(rng.range(1, 24) as i64),
            1 => -1,
            2 | 3 => 0,
            4 => 1,
            5 => rng.range(1, 8) as i64,
            _ => 64,
        };
        let bad = if rng.chance(1, 8) { rng.below(n as u64) as i64 } else { -1 };
        Some(format!(
            "lens={} pseed={} slack={} fill={} bad={} badkind={}",
            fmt_list(&lens),
            rng.next_u64() >> 1,
            slack,
            *rng.pick(&[0u64, 0xff, 0x5a]),
            bad,
            rng.below(6)
        ))
    });
    let kv = parse_kv(line.as_deref().unwrap_or("lens=0"));
    let case = case_from(&kv);
    let ca = src.decide("cuts#A", |rng| Some(fmt_list(&gen_cuts(rng, &case))));
    let cb = src.decide("cuts#B", |rng| Some(fmt_list(&gen_cuts(rng, &case))));
    let cuts_a = parse_list(ca.as_deref().unwrap_or("-"));
    let cuts_b = parse_list(cb.as_deref().unwrap_or("-"));
    let mut custom = compare(&case, &cuts_a, "chunking A");
    if custom.is_empty() {
        custom.extend(compare(&case, &cuts_b, "chunking B"));
    }
    // metamorphic: both chunkings yield the same packets / the same terminal error
    let (ra, _) = feed(&case, &cuts_a);
    let (rb, _) = feed(&case, &cuts_b);
    let outcome = |r: &[Res]| -> Vec<Res> {
        r.iter()
            .filter(|x| !matches!(x, Res::More(_)))
            .map(|x| match x {
                Res::Decoded { packet, .. } => Res::Decoded { packet: packet.clone(), consumed: 0 },
                Res::Err { small, size, buf_len, prefix_ok, .. } => Res::Err { small: *small, size: *size, consumed: 0, buf_len: *buf_len, prefix_ok: *prefix_ok },
                o => o.clone(),
            })
            .collect()
    };
    if custom.is_empty() && outcome(&ra) != outcome(&rb) {
        custom.push(v(
            "C16/result-depends-on-chunking".into(),
            0,
            format!("packets {:?} buffer {}: chunkings {:?} and {:?} yield different packet/error sequences", case.packets.iter().map(|p| p.len()).collect::<Vec<_>>(), case.buf_size, cuts_a, cuts_b),
        ));
    }
    let mut stats = Stats::default();
    stats.steps = (ra.len() + rb.len()) as u64;
    for c in cuts_a.iter().chain(cuts_b.iter()) {
        stats.fault(match cut_class(&case, *c) {
            0 => "cut_at_stream_start",
            1 => "cut_at_packet_boundary",
            2 => "cut_inside_first_header",
            3 => "cut_inside_later_header",
            4 => "cut_right_after_header",
            5 => "cut_inside_body",
            _ => "cut_at_stream_end",
        });
    }
    let mut sorted_a = cuts_a.clone();
    sorted_a.sort();
    if sorted_a.windows(2).any(|w| w[0] == w[1]) {
        stats.fault("empty_chunk");
    }
    if kv_i64(&kv, "bad", -1) >= 0 {
        stats.fault("non_stun_header_in_stream");
    }
    if kv_i64(&kv, "slack", 0) < 0 {
        stats.fault("buffer_smaller_than_packet");
    }
    let mut classes: Vec<u8> = cuts_a.iter().map(|c| cut_class(&case, *c)).collect();
    classes.sort();
    classes.dedup();
    let slack_class = kv_i64(&kv, "slack", 0).signum();
    let sig = hash_of(&(classes, case.packets.len(), slack_class, kv_i64(&kv, "bad", -1) >= 0, case.packets.iter().map(|p| (p.len() == 20) as u8).collect::<Vec<_>>()));
    let log = vec![format!("{:?}", ra), format!("{:?}", rb)];
    let ledger = Ledger {
        cfg: world::cfg_from_line(""),
        steps: vec![],
        txs: vec![],
        stats,
        quiesce_from: None,
        probe_start_ns: None,
        fresh_probe_app: None,
        truncated: false,
        custom,
        custom_log: log,
        custom_sigs: if cuts_a.is_empty() && cuts_b.is_empty() { vec![] } else { vec![sig] },
    };
    RunResult { ledger, entries: std::mem::take(&mut src.recorded) }
}

/// Systematic part: every 1- and 2-cut chunking of generated streams up to a size bound.
pub fn extra_exhaustive(spec: &PropSpec, args: &CheckArgs) -> ExtraResult {
    let mut res = ExtraResult::default();
    let thorough = args.tier == "thorough";
    let (n_streams, max_total) = if thorough { (24usize, 300usize) } else { (8usize, 110usize) };
    let mut rng = Rng::new(crate::prng::mix(args.seed, spec.tag, 0xC16));
    let results: std::sync::Mutex<(u64, Vec<(Violation, Vec<(String, String)>)>, std::collections::HashSet<u64>)> = std::sync::Mutex::new((0, vec![], Default::default()));
    let mut cases: Vec<(StreamCase, String)> = vec![];
    while cases.len() < n_streams {
        let n = rng.range(1, 3) as usize;
        let lens: Vec<usize> = (0..n).map(|_| 4 * rng.below(((max_total / n).saturating_sub(20) / 4 + 1) as u64) as usize).collect();
        let slack = *rng.pick(&[0i64, 0, 1, 8, -1, -21]);
        let bad = if rng.chance(1, 6) { rng.below(n as u64) as i64 } else { -1 };
        let line = format!("lens={} pseed={} slack={} fill=0 bad={} badkind={}", fmt_list(&lens), rng.next_u64() >> 1, slack, bad, rng.below(4));
        let case = case_from(&parse_kv(&line));
        if case.stream().len() <= max_total {
            cases.push((case, line));
        }
    }
    std::thread::scope(|s| {
        for chunk in cases.chunks((cases.len() + args.threads.max(1) - 1) / args.threads.max(1)) {
            let results = &results;
            s.spawn(move || {
                world::install_quiet_panic_hook();
                let mut n = 0u64;
                let mut found = vec![];
                let mut sigs = std::collections::HashSet::new();
                for (case, line) in chunk {
                    let total = case.stream().len();
                    for i in 0..=total {
                        for j in i..=total {
                            let cuts = if i == j && i == 0 { vec![] } else if i == j { vec![i] } else { vec![i, j] };
                            n += 1;
                            let vs = compare(case, &cuts, "exhaustive 1-/2-cut");
                            sigs.insert(hash_of(&(cut_class(case, i), cut_class(case, j), case.packets.len(), (case.buf_size as i64 - case.packets.iter().map(|p| p.len()).max().unwrap_or(0) as i64).signum())));
                            for vv in vs {
                                if found.len() < 4 {
                                    let entries = vec![("stream".to_string(), line.clone()), ("cuts#A".to_string(), fmt_list(&cuts)), ("cuts#B".to_string(), "-".to_string())];
                                    found.push((vv, entries));
                                }
                            }
                        }
                    }
                }
                let mut g = results.lock().unwrap();
                g.0 += n;
                g.1.extend(found);
                g.2.extend(sigs);
            });
        }
    });
    let g = results.into_inner().unwrap();
    res.evaluations = g.0;
    res.violations = g.1;
    res.distinct = g.2;
    res.counters.insert("exhaustive_chunkings".into(), g.0);
    res.counters.insert("exhaustive_streams".into(), cases.len() as u64);
    res.counters.insert("exhaustive_max_stream_bytes".into(), max_total as u64);
    res.samples.push(format!("exhaustive 1-/2-cut sweep of stream '{}' ({} bytes)", cases[0].1, cases[0].0.stream().len()));
    res
}
