//! Small dependency-free helpers: deterministic hasher, JSON writer.

use std::hash::Hasher;

/// FNV-1a 64-bit; deterministic across processes (unlike `RandomState`).
#[derive(Clone, Copy)]
pub struct Fnv(pub u64);

impl Default for Fnv {
    fn default() -> Self {
        Fnv(0xcbf2_9ce4_8422_2325)
    }
}

impl Hasher for Fnv {
    fn finish(&self) -> u64 {
        self.0
    }
    fn write(&mut self, bytes: &[u8]) {
        for b in bytes {
            self.0 ^= *b as u64;
            self.0 = self.0.wrapping_mul(0x0000_0100_0000_01b3);
        }
    }
}

pub fn hash_of<T: std::hash::Hash>(t: &T) -> u64 {
    let mut h = Fnv::default();
    t.hash(&mut h);
    h.finish()
}

pub fn hash_str(s: &str) -> u64 {
    let mut h = Fnv::default();
    h.write(s.as_bytes());
    h.finish()
}

#[derive(Clone, Debug)]
pub enum Json {
    Null,
    Bool(bool),
    Int(i64),
    Num(f64),
    Str(String),
    Arr(Vec<Json>),
    Obj(Vec<(String, Json)>),
}

impl Json {
    pub fn obj(pairs: Vec<(&str, Json)>) -> Json {
        Json::Obj(pairs.into_iter().map(|(k, v)| (k.to_string(), v)).collect())
    }
    pub fn s(x: &str) -> Json {
        Json::Str(x.to_string())
    }
    pub fn strs(xs: &[&str]) -> Json {
        Json::Arr(xs.iter().map(|x| Json::s(x)).collect())
    }

    pub fn render(&self, out: &mut String, indent: usize) {
        let pad = " ".repeat(indent);
        match self {
            Json::Null => out.push_str("null"),
            Json::Bool(b) => out.push_str(if *b { "true" } else { "false" }),
            Json::Int(i) => out.push_str(&i.to_string()),
            Json::Num(f) => {
                if f.is_finite() {
                    out.push_str(&format!("{:.3}", f));
                } else {
                    out.push_str("null");
                }
            }
            Json::Str(s) => {
                out.push('"');
                for c in s.chars() {
                    match c {
                        '"' => out.push_str("\\\""),
                        '\\' => out.push_str("\\\\"),
                        '\n' => out.push_str("\\n"),
                        '\r' => out.push_str("\\r"),
                        '\t' => out.push_str("\\t"),
                        c if (c as u32) < 0x20 => out.push_str(&format!("\\u{:04x}", c as u32)),
                        c => out.push(c),
                    }
                }
                out.push('"');
            }
            Json::Arr(a) => {
                if a.is_empty() {
                    out.push_str("[]");
                    return;
                }
                out.push_str("[\n");
                for (i, x) in a.iter().enumerate() {
                    out.push_str(&pad);
                    out.push_str("  ");
                    x.render(out, indent + 2);
                    if i + 1 < a.len() {
                        out.push(',');
                    }
                    out.push('\n');
                }
                out.push_str(&pad);
                out.push(']');
            }
            Json::Obj(o) => {
                if o.is_empty() {
                    out.push_str("{}");
                    return;
                }
                out.push_str("{\n");
                for (i, (k, x)) in o.iter().enumerate() {
                    out.push_str(&pad);
                    out.push_str("  ");
                    Json::Str(k.clone()).render(out, 0);
                    out.push_str(": ");
                    x.render(out, indent + 2);
                    if i + 1 < o.len() {
                        out.push(',');
                    }
                    out.push('\n');
                }
                out.push_str(&pad);
                out.push('}');
            }
        }
    }

    pub fn to_string_pretty(&self) -> String {
        let mut s = String::new();
        self.render(&mut s, 0);
        s.push('\n');
        s
    }
}
