//! Wire tap: every datagram is shown to the independent parser and to the real stun-rs decoder in
//! all 16 option combinations. C03 (never crash, size/prefix relations), C09 (section 14 admission
//! rule), and the systematic fault sweeps of C04 / C09 / C10.

use crate::ledger::*;
use crate::libtap::{self, DecodeOutcome, LibVerdict, Opts};
use crate::prng::Rng;
use crate::runner::{CheckArgs, ExtraResult, PropSpec};
use crate::server::{splice_suffix, Alg, Mech};
use crate::util::hash_of;
use crate::wire::{self, Verdict};
use crate::world;
use std::collections::{BTreeMap, HashSet};
use stun_rs::HMACKey;

fn viol(prop: &'static str, key: String, step: usize, detail: String) -> Violation {
    Violation { prop, key, step, detail }
}

fn opts_name(o: Opts) -> String {
    format!(
        "key={},validation={},unknown_data={},not_ignore={}",
        o.key as u8, o.validation as u8, o.unknown_data as u8, o.not_ignore as u8
    )
}

// ---------------------------------------------------------------------------------------------
// C03 relations on one byte string
// ---------------------------------------------------------------------------------------------

/// Returns (violation key, detail) pairs.
pub fn tap_c03(bytes: &[u8], key: Option<&HMACKey>, suffix_seed: u64) -> Vec<(String, String)> {
    let mut out = vec![];
    if let Err(loc) = libtap::input_texts_return(bytes) {
        out.push((format!("C03/panic-in-get_input_text({})", loc), format!("get_input_text panicked on {} bytes", bytes.len())));
    }
    let mut rng = Rng::new(suffix_seed ^ bytes.len() as u64);
    for o in libtap::all_opts() {
        let d = libtap::decoder(o, key);
        match libtap::decode(&d, bytes) {
            DecodeOutcome::Panic(loc) => {
                out.push((format!("C03/panic-in-decode({})", loc), format!("decode panicked with options {} on {}", opts_name(o), crate::crypto::hex(bytes))));
                return out;
            }
            DecodeOutcome::Err(_) => {}
            DecodeOutcome::Ok(dec) => {
                let hdr = if bytes.len() >= 4 { 20 + u16::from_be_bytes([bytes[2], bytes[3]]) as usize } else { 0 };
                if dec.consumed != hdr || dec.consumed > bytes.len() {
                    out.push((
                        "C03/decoded-size-differs-from-header-length".to_string(),
                        format!("decode reported {} bytes, header says {}, input has {} ({})", dec.consumed, hdr, bytes.len(), opts_name(o)),
                    ));
                    continue;
                }
                // the result depends only on those first bytes
                let mut b2 = bytes[..dec.consumed].to_vec();
                let extra_len = rng.below(24) as usize;
                let extra = rng.bytes(extra_len);
                b2.extend_from_slice(&extra);
                match libtap::decode(&d, &b2) {
                    DecodeOutcome::Ok(d2) if d2 == dec => {}
                    DecodeOutcome::Panic(loc) => out.push((format!("C03/panic-in-decode({})", loc), format!("decode of prefix + random suffix panicked ({})", opts_name(o)))),
                    other => out.push((
                        "C03/decode-depends-on-bytes-beyond-the-message".to_string(),
                        format!("decode of the first {} bytes followed by {} other bytes gives a different result ({}): {:?}", dec.consumed, extra.len(), opts_name(o), short_outcome(&other)),
                    )),
                }
                if dec.consumed < bytes.len() {
                    match libtap::decode(&d, &bytes[..dec.consumed]) {
                        DecodeOutcome::Ok(d2) if d2 == dec => {}
                        other => out.push((
                            "C03/decode-depends-on-bytes-beyond-the-message".to_string(),
                            format!("decode of exactly the first {} bytes differs from decode of the longer input ({}): {:?}", dec.consumed, opts_name(o), short_outcome(&other)),
                        )),
                    }
                }
            }
        }
    }
    out
}

fn short_outcome(o: &DecodeOutcome) -> String {
    match o {
        DecodeOutcome::Ok(d) => format!("Ok(types {:04x?}, {} bytes)", d.attr_types, d.consumed),
        DecodeOutcome::Err(e) => format!("Err({})", e),
        DecodeOutcome::Panic(l) => format!("Panic({})", l),
    }
}

// ---------------------------------------------------------------------------------------------
// C09 relations on one byte string
// ---------------------------------------------------------------------------------------------

fn kind_of(t: u16) -> u8 {
    match t {
        wire::A_MI => 1,
        wire::A_MI256 => 2,
        wire::A_FINGERPRINT => 3,
        _ => 0,
    }
}

/// (automaton state, next kind) pairs visited by a type sequence; state = 3 seen-flags.
pub fn automaton_pairs(types: &[u16], out: &mut HashSet<u8>) {
    let (mut mi, mut sha, mut fp) = (false, false, false);
    for t in types {
        let state = (mi as u8) | (sha as u8) << 1 | (fp as u8) << 2;
        out.insert(state * 4 + kind_of(*t));
        match *t {
            wire::A_MI => {
                if !mi && !sha && !fp {
                    mi = true
                }
            }
            wire::A_MI256 => {
                if !sha && !fp {
                    sha = true
                }
            }
            wire::A_FINGERPRINT => fp = true,
            _ => {}
        }
    }
}

/// Checks the decoded attribute lists (and, with a key, the validation verdicts) of all decoder
/// configurations against the independent admission automaton.
pub fn tap_c09(bytes: &[u8], lib_key: Option<&HMACKey>, raw_key: Option<&[u8]>) -> Vec<(String, String)> {
    let mut out = vec![];
    let Ok(p) = wire::parse(bytes) else { return out };
    let types = p.types();
    let adm = wire::admitted(&types);
    let admitted_types: Vec<u16> = types.iter().zip(adm.iter()).filter(|(_, a)| **a).map(|(t, _)| *t).collect();
    // base decodability: the default decoder (no validation) decides whether attribute values decode
    let base = libtap::decode(&libtap::decoder(Opts { key: false, validation: false, unknown_data: false, not_ignore: false }, None), bytes);
    let DecodeOutcome::Ok(_) = base else { return out };
    let any_inadmissible = adm.iter().any(|a| !*a);
    let base_ni_fails = any_inadmissible
        && !matches!(libtap::decode(&libtap::decoder(Opts { key: false, validation: false, unknown_data: false, not_ignore: true }, None), bytes), DecodeOutcome::Ok(_));
    // independent verdicts of the admitted verifiable attributes
    let mut all_valid_nokey = true; // validation without a key: any admitted integrity attribute fails
    let mut all_valid_key = true;
    for (i, a) in p.attrs.iter().enumerate() {
        if !adm[i] {
            continue;
        }
        match a.typ {
            wire::A_MI | wire::A_MI256 => {
                all_valid_nokey = false;
                match raw_key {
                    Some(k) => {
                        let text = wire::covered_text(bytes, &p, i);
                        let mac = if a.typ == wire::A_MI { crate::crypto::hmac_sha1(k, &text) } else { crate::crypto::hmac_sha256(k, &text) };
                        if a.value != mac {
                            all_valid_key = false;
                        }
                    }
                    None => all_valid_key = false,
                }
            }
            wire::A_FINGERPRINT => {
                let text = wire::covered_text(bytes, &p, i);
                let want = (crate::crypto::crc32(&text) ^ wire::FP_XOR).to_be_bytes();
                if a.value != want {
                    all_valid_nokey = false;
                    all_valid_key = false;
                }
            }
            _ => {}
        }
    }
    for o in libtap::all_opts() {
        let d = libtap::decoder(o, lib_key);
        let r = libtap::decode(&d, bytes);
        let has_key = o.key && lib_key.is_some();
        match &r {
            DecodeOutcome::Panic(loc) => out.push((format!("C09/panic-in-decode({})", loc), opts_name(o))),
            DecodeOutcome::Ok(dec) => {
                let want: &Vec<u16> = if o.not_ignore { &types } else { &admitted_types };
                if &dec.attr_types != want {
                    let extra_kind = dec.attr_types.iter().filter(|t| kind_of(**t) != 0).count() as i64 - want.iter().filter(|t| kind_of(**t) != 0).count() as i64;
                    out.push((
                        format!(
                            "C09/decoded-attributes-differ-from-admission-rule({},{})",
                            if o.not_ignore { "not_ignore" } else { "default-rule" },
                            if dec.attr_types.len() > want.len() { "extra-attribute-returned" } else if dec.attr_types.len() < want.len() { "attribute-missing" } else { "different" }
                        ),
                        format!("wire types {:04x?}: rule admits {:04x?}, decoder ({}) returned {:04x?} [{}]", types, want, opts_name(o), dec.attr_types, extra_kind),
                    ));
                }
                if o.validation && !o.not_ignore {
                    let should_pass = if has_key { all_valid_key } else { all_valid_nokey };
                    if !should_pass {
                        out.push((
                            "C09/validation-passed-with-invalid-admitted-attribute".to_string(),
                            format!("wire types {:04x?}: an admitted integrity/fingerprint attribute is invalid but decode with validation succeeded ({})", types, opts_name(o)),
                        ));
                    }
                }
            }
            DecodeOutcome::Err(e) => {
                // with the ordering rule switched off every wire attribute has to be value-decoded, also those the
                // rule does not admit and the default decoder therefore never looks at: a value the library's decoder
                // refuses there is a legitimate failure (classified by the plain not_ignore decoder)
                if o.not_ignore && any_inadmissible && base_ni_fails {
                    continue;
                }
                if !o.validation {
                    out.push((
                        "C09/decode-failed-without-validation".to_string(),
                        format!("wire types {:04x?}: the default decoder accepts the message but options {} fail: {}", types, opts_name(o), e),
                    ));
                } else if !o.not_ignore {
                    let should_pass = if has_key { all_valid_key } else { all_valid_nokey };
                    if should_pass {
                        out.push((
                            "C09/validation-failed-on-inadmissible-attribute".to_string(),
                            format!("wire types {:04x?}: every admitted integrity/fingerprint attribute is valid, yet decode with validation fails ({}): {}", types, opts_name(o), e),
                        ));
                    }
                }
            }
        }
    }
    for (k, d) in tap_not_ignore_validation(bytes, lib_key, raw_key) {
        out.push((format!("C09/{}", k), d));
    }
    out
}

/// With the ordering rule switched off (`not_ignore`) every wire attribute is returned, and with validation and
/// a key every verifiable attribute that is returned must have been verified: a message that decodes under
/// (key, validation, not_ignore) must not contain an integrity attribute / FINGERPRINT whose first occurrence
/// does not verify independently, wherever it sits.
pub fn tap_not_ignore_validation(bytes: &[u8], lib_key: Option<&HMACKey>, raw_key: Option<&[u8]>) -> Vec<(String, String)> {
    let mut out = vec![];
    let (Some(lk), Some(rk)) = (lib_key, raw_key) else { return out };
    let Ok(p) = wire::parse(bytes) else { return out };
    let o = Opts { key: true, validation: true, unknown_data: false, not_ignore: true };
    let DecodeOutcome::Ok(dec) = libtap::decode(&libtap::decoder(o, Some(lk)), bytes) else { return out };
    for typ in [wire::A_MI, wire::A_MI256, wire::A_FINGERPRINT] {
        let Some(i) = p.find_idx(typ) else { continue };
        if !dec.attr_types.contains(&typ) {
            continue;
        }
        let a = &p.attrs[i];
        let text = wire::covered_text(bytes, &p, i);
        let ok = match typ {
            wire::A_MI => a.value == crate::crypto::hmac_sha1(rk, &text),
            wire::A_MI256 => a.value == crate::crypto::hmac_sha256(rk, &text),
            _ => a.value == (crate::crypto::crc32(&text) ^ wire::FP_XOR).to_be_bytes(),
        };
        if !ok {
            let adm = wire::admitted(&p.types());
            out.push((
                format!("not-ignore-validation-passed-with-unverified-attribute({:#06x},{})", typ, if adm[i] { "admissible-position" } else { "inadmissible-position" }),
                format!("wire types {:04x?}: decode(with_key, with_validation, not_ignore) succeeded and returned attribute {:#06x} whose value does not verify", p.types(), typ),
            ));
        }
    }
    out
}

/// Ledger part of C09: what the client delivers contains exactly the admitted attributes.
pub fn check_c09_ledger(l: &Ledger) -> Vec<Violation> {
    let mut out = vec![];
    let lib_key = match &l.cfg.mech {
        Mech::ShortTerm(_) => libtap::short_term_key(&l.cfg.password),
        _ => None,
    };
    let raw_key: Option<Vec<u8>> = match &l.cfg.mech {
        Mech::ShortTerm(_) => Some(l.cfg.pw().into_bytes()),
        _ => None,
    };
    for st in &l.steps {
        let Call::Recv { bytes, .. } = &st.call else { continue };
        let Ok(p) = wire::parse(bytes) else { continue };
        let types = p.types();
        let adm = wire::admitted(&types);
        let admitted_types: Vec<u16> = types.iter().zip(adm.iter()).filter(|(_, a)| **a).map(|(t, _)| *t).collect();
        for e in &st.events {
            if let Ev::Received(m) = e {
                if m.attr_types != admitted_types {
                    out.push(viol(
                        "C09",
                        "C09/delivered-message-attributes-differ-from-admission-rule".into(),
                        st.idx,
                        format!("step {}: wire types {:04x?}, rule admits {:04x?}, the delivered message has {:04x?}", st.idx, types, admitted_types, m.attr_types),
                    ));
                }
            }
        }
        // only messages that carry something after an integrity / fingerprint attribute are interesting here
        let interesting = adm.iter().any(|a| !*a) || types.iter().filter(|t| kind_of(**t) != 0).count() >= 2;
        if interesting {
            for (k, d) in tap_c09(bytes, lib_key.as_ref(), raw_key.as_deref()) {
                out.push(viol("C09", k, st.idx, format!("step {}: {}", st.idx, d)));
            }
        }
    }
    out
}

pub fn c09_pairs_of_ledger(l: &Ledger) -> HashSet<u8> {
    let mut s = HashSet::new();
    for st in &l.steps {
        if let Call::Recv { bytes, .. } = &st.call {
            if let Ok(p) = wire::parse(bytes) {
                automaton_pairs(&p.types(), &mut s);
            }
        }
    }
    s
}

/// Systematic part of C09: every suffix up to length L over {ordinary, MI, SHA256, FINGERPRINT} x
/// {right, wrong checksum} appended to each of the 8 base tails of a valid message.
pub fn extra_c09(spec: &PropSpec, args: &CheckArgs) -> ExtraResult {
    let mut res = ExtraResult::default();
    let maxlen = if args.tier == "thorough" { 4 } else { 3 };
    let password = "sweep-password";
    let raw_key = password.as_bytes().to_vec();
    let lib_key = libtap::short_term_key(password);
    let tokens = ['a', 'm', 'M', 's', 'S', 'f', 'F', 't', 'r'];
    let mut pairs: HashSet<u8> = HashSet::new();
    let mut seqs: Vec<String> = vec![String::new()];
    let mut frontier = vec![String::new()];
    for _ in 0..maxlen {
        let mut next = vec![];
        for f in &frontier {
            for t in tokens {
                let mut s = f.clone();
                s.push(t);
                next.push(s);
            }
        }
        seqs.extend(next.iter().cloned());
        frontier = next;
    }
    let bases = ["", "m", "s", "ms", "f", "mf", "sf", "msf"];
    let mut sample_done = false;
    for (bi, base) in bases.iter().enumerate() {
        let mut id = [0u8; 12];
        id[0] = bi as u8;
        id[5] = spec.tag as u8;
        let mut b0 = wire::Builder::new(wire::C_SUCCESS, 1, &id);
        b0.push_attr(wire::A_SOFTWARE, b"base");
        b0.push_attr(wire::A_XOR_MAPPED_ADDRESS, &wire::xor_mapped_v4(1234, [10, 0, 0, 1]));
        splice_suffix(&mut b0, base, &raw_key);
        let valid = b0.buf.clone();
        let valid_dec: BTreeMap<u8, DecodeOutcome> = libtap::all_opts()
            .iter()
            .enumerate()
            .map(|(i, o)| (i as u8, libtap::decode(&libtap::decoder(*o, lib_key.as_ref()), &valid)))
            .collect();
        for suf in &seqs {
            let mut b = wire::Builder { buf: valid.clone(), pad: 0 };
            splice_suffix(&mut b, suf, &raw_key);
            let bytes = b.finish();
            res.evaluations += 1;
            let p = wire::parse(&bytes).unwrap();
            let types = p.types();
            automaton_pairs(&types, &mut pairs);
            res.distinct.insert(hash_of(&(bi, suf)));
            let mut found: Vec<(String, String)> = tap_c09(&bytes, lib_key.as_ref(), Some(&raw_key));
            // appending only inadmissible attributes never changes what is decoded
            let adm = wire::admitted(&types);
            let base_n = wire::parse(&valid).unwrap().attrs.len();
            let suffix_all_inadmissible = adm[base_n..].iter().all(|a| !*a);
            if suffix_all_inadmissible && !suf.is_empty() {
                for (i, o) in libtap::all_opts().iter().enumerate() {
                    if o.not_ignore {
                        continue;
                    }
                    let r = libtap::decode(&libtap::decoder(*o, lib_key.as_ref()), &bytes);
                    let same = match (&r, &valid_dec[&(i as u8)]) {
                        (DecodeOutcome::Ok(a), DecodeOutcome::Ok(b)) => a.attr_types == b.attr_types && a.repr == b.repr && a.class == b.class && a.txid == b.txid,
                        (DecodeOutcome::Err(_), DecodeOutcome::Err(_)) => true,
                        _ => false,
                    };
                    if !same {
                        found.push((
                            "C09/inadmissible-suffix-changed-the-decode".to_string(),
                            format!("base tail '{}' + suffix '{}' ({}): {} vs valid message {}", base, suf, opts_name(*o), short_outcome(&r), short_outcome(&valid_dec[&(i as u8)])),
                        ));
                    }
                }
            }
            if !sample_done && suf.len() == 2 {
                res.samples.push(format!("base tail '{}' + spliced suffix '{}' => wire types {:04x?}, admitted {:?}", base, suf, types, adm));
                sample_done = true;
            }
            for (k, d) in found {
                let entries = vec![("sweep".to_string(), format!("kind=c09 base={} suffix={}", if base.is_empty() { "-" } else { base }, if suf.is_empty() { "-" } else { suf }))];
                res.violations.push((viol("C09", k, 0, format!("base tail '{}' + suffix '{}': {}", base, suf, d)), entries));
            }
        }
    }
    res.counters.insert("automaton_pairs_covered".into(), pairs.len() as u64);
    res.counters.insert("automaton_pairs_total".into(), 32);
    res.counters.insert("sweep_max_suffix_length".into(), maxlen as u64);
    res.counters.insert("sweep_messages".into(), res.evaluations);
    if pairs.len() < 32 {
        res.violations.push((
            viol("C09", "C09/harness-coverage-incomplete".into(), 0, format!("only {} of 32 (state, next kind) pairs visited", pairs.len())),
            vec![],
        ));
    }
    res
}

/// Replays one C09 sweep case from a plan entry.
pub fn replay_sweep_c09(kv: &crate::plan::Kv) -> Vec<Violation> {
    let base = crate::plan::kv_str(kv, "base", "-").replace('-', "");
    let suf = crate::plan::kv_str(kv, "suffix", "-").replace('-', "");
    let password = "sweep-password";
    let raw_key = password.as_bytes().to_vec();
    let lib_key = libtap::short_term_key(password);
    let bases = ["", "m", "s", "ms", "f", "mf", "sf", "msf"];
    let bi = bases.iter().position(|b| *b == base).unwrap_or(0);
    let mut id = [0u8; 12];
    id[0] = bi as u8;
    id[5] = 9;
    let mut b0 = wire::Builder::new(wire::C_SUCCESS, 1, &id);
    b0.push_attr(wire::A_SOFTWARE, b"base");
    b0.push_attr(wire::A_XOR_MAPPED_ADDRESS, &wire::xor_mapped_v4(1234, [10, 0, 0, 1]));
    splice_suffix(&mut b0, &base, &raw_key);
    let valid = b0.buf.clone();
    let mut b = wire::Builder { buf: valid.clone(), pad: 0 };
    splice_suffix(&mut b, &suf, &raw_key);
    let bytes = b.finish();
    let mut out: Vec<Violation> = tap_c09(&bytes, lib_key.as_ref(), Some(&raw_key)).into_iter().map(|(k, d)| viol("C09", k, 0, d)).collect();
    let p = wire::parse(&bytes).unwrap();
    let adm = wire::admitted(&p.types());
    let base_n = wire::parse(&valid).unwrap().attrs.len();
    if adm[base_n..].iter().all(|a| !*a) && !suf.is_empty() {
        for o in libtap::all_opts() {
            if o.not_ignore {
                continue;
            }
            let d = libtap::decoder(o, lib_key.as_ref());
            let same = match (libtap::decode(&d, &bytes), libtap::decode(&d, &valid)) {
                (DecodeOutcome::Ok(a), DecodeOutcome::Ok(b)) => a.attr_types == b.attr_types && a.repr == b.repr,
                (DecodeOutcome::Err(_), DecodeOutcome::Err(_)) => true,
                _ => false,
            };
            if !same {
                out.push(viol("C09", "C09/inadmissible-suffix-changed-the-decode".into(), 0, opts_name(o)));
            }
        }
    }
    out
}

// ---------------------------------------------------------------------------------------------
// C04 / C10: systematic single-bit (and byte-class) faults on sampled in-flight messages
// ---------------------------------------------------------------------------------------------

#[derive(Clone, Debug)]
pub struct Sample {
    pub bytes: Vec<u8>,
    pub raw_key: Vec<u8>,
    /// how to rebuild the library key: (kind, user, realm, password, sha256)
    pub keyspec: (String, String, String, String, bool),
    pub origin: String,
}

fn lib_key_of(s: &Sample) -> Option<HMACKey> {
    if s.keyspec.0 == "st" {
        libtap::short_term_key(&s.keyspec.3)
    } else {
        libtap::long_term_key(&s.keyspec.1, &s.keyspec.2, &s.keyspec.3, s.keyspec.4)
    }
}

/// Harvests authenticated / fingerprinted in-flight messages from simulated conversations.
pub fn harvest(spec: &PropSpec, seed: u64, want: usize, need_integrity: bool) -> Vec<Sample> {
    let mut out: Vec<Sample> = vec![];
    let mut shapes: HashSet<u64> = HashSet::new();
    let mut per_shape: BTreeMap<u64, usize> = BTreeMap::new();
    let mut run = 0u64;
    while out.len() < want && run < 200_000 {
        let (l, _) = crate::runner::run_one(spec, seed ^ 0x5eed, run);
        run += 1;
        let track = crate::oracle_cred::lt_track(&l);
        for st in &l.steps {
            let mut cands: Vec<(&Vec<u8>, &str)> = vec![];
            match &st.call {
                Call::Recv { bytes, fault, .. } if fault.is_empty() => cands.push((bytes, "server")),
                _ => {}
            }
            for e in &st.events {
                if let Ev::Output(b) = e {
                    cands.push((b, "client"));
                }
            }
            for (b, who) in cands {
                let Ok(p) = wire::parse(b) else { continue };
                let has_int = p.count(wire::A_MI) + p.count(wire::A_MI256) > 0;
                let has_fp = p.count(wire::A_FINGERPRINT) > 0;
                if need_integrity && !has_int {
                    continue;
                }
                if !need_integrity && !has_fp {
                    continue;
                }
                // key under which the message is protected
                let (raw_key, keyspec) = match &l.cfg.mech {
                    Mech::ShortTerm(_) => (l.cfg.pw().into_bytes(), ("st".to_string(), String::new(), String::new(), l.cfg.password.clone(), false)),
                    Mech::LongTerm => {
                        let (ctx, _) = track.at(st.idx);
                        let Some(c) = ctx else { continue };
                        // try both algorithms: keep the one under which the message verifies
                        let mut pick = None;
                        for sha in [false, true] {
                            let k = wire::long_term_key(if sha { wire::ALG_SHA256 } else { wire::ALG_MD5 }, &l.cfg.user, &c.realm, &l.cfg.pw());
                            let t = if p.count(wire::A_MI256) > 0 { wire::A_MI256 } else { wire::A_MI };
                            if wire::verify_integrity(b, &p, t, &k) == Verdict::Good {
                                pick = Some((k, sha));
                            }
                        }
                        match pick {
                            Some((k, sha)) => (k, ("lt".to_string(), l.cfg.user.clone(), c.realm.clone(), l.cfg.password.clone(), sha)),
                            None => {
                                if need_integrity {
                                    continue;
                                }
                                (vec![], ("st".to_string(), String::new(), String::new(), "x".to_string(), false))
                            }
                        }
                    }
                    Mech::None => {
                        if need_integrity {
                            continue;
                        }
                        (vec![], ("st".to_string(), String::new(), String::new(), "x".to_string(), false))
                    }
                };
                // only encoder-shaped messages are swept: the tail is a subsequence of [MI, MI-SHA256, FINGERPRINT]
                // with nothing after it (server personalities and splice faults also produce other shapes, which
                // are not "a message encoded with ..." in the sense of the property), and every checksum verifies
                let types = p.types();
                let tail_start = types.iter().position(|t| kind_of(*t) != 0).unwrap_or(types.len());
                let tail: Vec<u8> = types[tail_start..].iter().map(|t| kind_of(*t)).collect();
                let canonical = tail.windows(2).all(|w| w[0] < w[1]) && tail.iter().all(|k| *k != 0);
                if !canonical {
                    continue;
                }
                if has_fp && wire::verify_fingerprint(b, &p) != Verdict::Good {
                    continue;
                }
                if need_integrity {
                    let ok = [wire::A_MI, wire::A_MI256].iter().all(|t| p.count(*t) == 0 || wire::verify_integrity(b, &p, *t, &raw_key) == Verdict::Good);
                    if !ok {
                        continue;
                    }
                }
                let shape = hash_of(&(p.types(), p.class, crate::world::mech_to_str(&l.cfg.mech), keyspec.4, who, b.len() / 16));
                let c = per_shape.entry(shape).or_insert(0);
                if *c >= 3 {
                    continue;
                }
                *c += 1;
                shapes.insert(shape);
                out.push(Sample { bytes: b.clone(), raw_key, keyspec, origin: format!("{} {} run {}", who, crate::world::mech_to_str(&l.cfg.mech), run - 1) });
                if out.len() >= want {
                    return out;
                }
            }
        }
    }
    out
}

pub fn region_name(p: &wire::Parsed, byte: usize) -> &'static str {
    region_of(p, byte)
}

fn region_of(p: &wire::Parsed, byte: usize) -> &'static str {
    if byte < 2 {
        return "type";
    }
    if byte < 4 {
        return "length";
    }
    if byte < 8 {
        return "cookie";
    }
    if byte < 20 {
        return "txid";
    }
    for a in &p.attrs {
        if byte >= a.off && byte < a.end() {
            let kind = match a.typ {
                wire::A_MI | wire::A_MI256 => "mac",
                wire::A_FINGERPRINT => "fingerprint",
                _ => "attr",
            };
            return if byte < a.off + 2 {
                match kind {
                    "mac" => "mac-header-type",
                    "fingerprint" => "fingerprint-header-type",
                    _ => "attr-header-type",
                }
            } else if byte < a.off + 4 {
                match kind {
                    "mac" => "mac-header-length",
                    "fingerprint" => "fingerprint-header-length",
                    _ => "attr-header-length",
                }
            } else if byte < a.off + 4 + a.value.len() {
                match kind {
                    "mac" => "mac-value",
                    "fingerprint" => "fingerprint-value",
                    _ => "attr-value",
                }
            } else {
                "attr-padding"
            };
        }
    }
    "beyond"
}

/// Is the integrity attribute `typ` of the tampered message accepted as authenticated by the library?
/// Returns the names of the library paths that accept it.
fn lib_accepts_integrity(tampered: &[u8], typ: u16, key: &HMACKey) -> Vec<&'static str> {
    let mut acc = vec![];
    let d = libtap::decoder(Opts { key: true, validation: true, unknown_data: false, not_ignore: false }, Some(key));
    if let DecodeOutcome::Ok(dec) = libtap::decode(&d, tampered) {
        if dec.attr_types.contains(&typ) {
            acc.push("decode(with_key,with_validation)");
        }
    }
    let vd = if typ == wire::A_MI { libtap::validate_mi(tampered, key) } else { libtap::validate_mi256(tampered, key) };
    if vd == LibVerdict::Valid {
        acc.push("validate(get_input_text)");
    }
    acc
}

pub fn sweep_integrity_message(s: &Sample, res: &mut ExtraResult, full: bool) {
    let Some(key) = lib_key_of(s) else { return };
    let Ok(p) = wire::parse(&s.bytes) else { return };
    // (a) the untampered message is accepted by every path, and the reference agrees
    for typ in [wire::A_MI, wire::A_MI256] {
        if p.count(typ) == 0 {
            continue;
        }
        let name = if typ == wire::A_MI { "MI" } else { "MI-SHA256" };
        let acc = lib_accepts_integrity(&s.bytes, typ, &key);
        if acc.len() != 2 {
            res.violations.push((
                viol("C04", format!("C04/valid-message-not-accepted({},{})", name, s.keyspec.0), 0, format!("{}: a message whose {} verifies independently is accepted only by {:?}: {}", s.origin, name, acc, crate::crypto::hex(&s.bytes))),
                vec![("sweep".into(), sample_entry(s, "c04"))],
            ));
        }
        // (c) wrong keys differing in one character
        let mut pw = s.keyspec.3.clone().into_bytes();
        if let Some(l) = pw.last_mut() {
            *l = if *l == b'x' { b'y' } else { b'x' };
        }
        let pw = String::from_utf8_lossy(&pw).to_string();
        let wrong = if s.keyspec.0 == "st" { libtap::short_term_key(&pw) } else { libtap::long_term_key(&s.keyspec.1, &s.keyspec.2, &pw, s.keyspec.4) };
        if let Some(wk) = wrong {
            res.evaluations += 1;
            let acc = lib_accepts_integrity(&s.bytes, typ, &wk);
            if !acc.is_empty() {
                res.violations.push((
                    viol("C04", format!("C04/accepted-under-wrong-key({})", name), 0, format!("{}: accepted under a key derived from a password that differs in one character by {:?}", s.origin, acc)),
                    vec![("sweep".into(), sample_entry(s, "c04"))],
                ));
            }
        }
        // (b) every single-bit fault in the protected prefix and in the MAC
        let idx = p.attrs.iter().position(|a| a.typ == typ).unwrap();
        let a = &p.attrs[idx];
        let protected_end = a.off + 4 + a.value.len();
        let step = if full { 1 } else { 3 };
        let mut bit = 0usize;
        while bit < protected_end * 8 {
            let byte = bit / 8;
            if byte == 2 || byte == 3 {
                bit += 1;
                continue;
            }
            let mut t = s.bytes.clone();
            t[byte] ^= 1 << (bit % 8);
            res.evaluations += 1;
            *res.counters.entry("bit_faults_applied".into()).or_insert(0) += 1;
            let acc = lib_accepts_integrity(&t, typ, &key);
            // differential: the independent verifier
            let refv = match wire::parse(&t) {
                Ok(tp) => wire::verify_integrity(&t, &tp, typ, &s.raw_key),
                Err(_) => Verdict::Absent,
            };
            let region = region_of(&p, byte);
            res.distinct.insert(hash_of(&(name, &s.keyspec.0, s.keyspec.4, p.types(), region, acc.is_empty(), refv == Verdict::Good)));
            if !acc.is_empty() {
                res.violations.push((
                    viol(
                        "C04",
                        format!("C04/tampered-message-accepted({},region={})", name, region),
                        0,
                        format!("{}: after flipping bit {} (byte {}, {}) the message is still accepted as authenticated by {:?}", s.origin, bit, byte, region, acc),
                    ),
                    vec![("sweep".into(), sample_entry(s, "c04"))],
                ));
                return;
            }
            if refv == Verdict::Good {
                res.violations.push((
                    viol("C04", "C04/harness-reference-verifier-accepts-tampered-message".into(), 0, format!("bit {} of {}", bit, crate::crypto::hex(&s.bytes))),
                    vec![],
                ));
                return;
            }
            bit += step;
        }
    }
}

pub fn sweep_fingerprint_message(s: &Sample, res: &mut ExtraResult, full: bool) {
    let Ok(p) = wire::parse(&s.bytes) else { return };
    if p.count(wire::A_FINGERPRINT) == 0 {
        return;
    }
    // the untampered message: independent CRC equals the attribute, the library validates it
    if wire::verify_fingerprint(&s.bytes, &p) != Verdict::Good {
        res.violations.push((
            viol("C10", "C10/emitted-fingerprint-is-not-the-rfc-crc".into(), 0, format!("{}: {}", s.origin, crate::crypto::hex(&s.bytes))),
            vec![("sweep".into(), sample_entry(s, "c10"))],
        ));
        return;
    }
    let dv = libtap::decoder(Opts { key: false, validation: false, unknown_data: false, not_ignore: false }, None);
    let accepts = |t: &[u8]| -> Vec<&'static str> {
        let mut acc = vec![];
        // decode with validation (no key: integrity attributes would fail for another reason, so use the
        // explicit validator and a validating decode only when the message carries no integrity attribute)
        if libtap::validate_fp(t) == LibVerdict::Valid {
            acc.push("Fingerprint::validate(get_input_text)");
        }
        if let Ok(tp) = wire::parse(t) {
            if tp.count(wire::A_MI) + tp.count(wire::A_MI256) == 0 {
                let d = libtap::decoder(Opts { key: false, validation: true, unknown_data: false, not_ignore: false }, None);
                if let DecodeOutcome::Ok(dec) = libtap::decode(&d, t) {
                    if dec.attr_types.contains(&wire::A_FINGERPRINT) {
                        acc.push("decode(with_validation)");
                    }
                }
            }
        }
        acc
    };
    if accepts(&s.bytes).is_empty() || !matches!(libtap::decode(&dv, &s.bytes), DecodeOutcome::Ok(_)) {
        res.violations.push((
            viol("C10", "C10/valid-fingerprint-not-accepted".into(), 0, format!("{}: {}", s.origin, crate::crypto::hex(&s.bytes))),
            vec![("sweep".into(), sample_entry(s, "c10"))],
        ));
        return;
    }
    let n = s.bytes.len();
    let mut try_one = |t: Vec<u8>, what: String, region: &'static str, res: &mut ExtraResult| -> bool {
        res.evaluations += 1;
        let acc = accepts(&t);
        let refv = match wire::parse(&t) {
            Ok(tp) => wire::verify_fingerprint(&t, &tp),
            Err(_) => Verdict::Absent,
        };
        res.distinct.insert(hash_of(&(p.types(), p.class, region, acc.is_empty(), refv == Verdict::Good, what.starts_with("bit"))));
        if !acc.is_empty() {
            res.violations.push((
                viol("C10", format!("C10/altered-message-accepted-with-valid-fingerprint(region={})", region), 0, format!("{}: after {} the altered bytes are still accepted as carrying a valid FINGERPRINT by {:?}", s.origin, what, acc)),
                vec![("sweep".into(), sample_entry(s, "c10"))],
            ));
            return false;
        }
        if refv == Verdict::Good {
            res.violations.push((viol("C10", "C10/harness-reference-crc-accepts-altered-message".into(), 0, what), vec![]));
            return false;
        }
        true
    };
    let step = if full { 1 } else { 2 };
    let mut bit = 0;
    while bit < n * 8 {
        let mut t = s.bytes.clone();
        t[bit / 8] ^= 1 << (bit % 8);
        *res.counters.entry("bit_faults_applied".into()).or_insert(0) += 1;
        if !try_one(t, format!("bit={} val=0", bit), region_of(&p, bit / 8), res) {
            return;
        }
        bit += step;
    }
    for byte in 0..n {
        for (ci, val) in [0x00u8, 0xff, s.bytes[byte].wrapping_add(1), (byte as u8).wrapping_mul(37) ^ 0x5a].iter().enumerate() {
            if *val == s.bytes[byte] {
                continue;
            }
            let mut t = s.bytes.clone();
            t[byte] = *val;
            *res.counters.entry("byte_faults_applied".into()).or_insert(0) += 1;
            if !try_one(t, format!("bit=-{} byte={} val={}", 10 + ci, byte, val), region_of(&p, byte), res) {
                return;
            }
        }
    }
}

fn run_sweep(spec: &PropSpec, args: &CheckArgs, integrity: bool) -> ExtraResult {
    let want = if args.tier == "thorough" { 6000 } else { 240 };
    let samples = harvest(spec, args.seed, want, integrity);
    let full = true;
    let merged: std::sync::Mutex<ExtraResult> = std::sync::Mutex::new(ExtraResult::default());
    let nthreads = args.threads.max(1);
    std::thread::scope(|sc| {
        for ch in samples.chunks((samples.len() + nthreads - 1) / nthreads.max(1)) {
            let merged = &merged;
            sc.spawn(move || {
                world::install_quiet_panic_hook();
                let mut r = ExtraResult::default();
                for s in ch {
                    if integrity {
                        sweep_integrity_message(s, &mut r, full);
                    } else {
                        sweep_fingerprint_message(s, &mut r, full);
                    }
                    *r.counters.entry("messages_swept".into()).or_insert(0) += 1;
                }
                let mut m = merged.lock().unwrap();
                m.evaluations += r.evaluations;
                m.distinct.extend(r.distinct);
                for (k, c) in r.counters {
                    *m.counters.entry(k).or_insert(0) += c;
                }
                m.violations.extend(r.violations);
            });
        }
    });
    let mut res = merged.into_inner().unwrap();
    // legal tails seen among the swept messages
    let mut tails: HashSet<Vec<u16>> = HashSet::new();
    for s in &samples {
        if let Ok(p) = wire::parse(&s.bytes) {
            tails.insert(p.types().into_iter().filter(|t| kind_of(*t) != 0).collect());
        }
    }
    res.counters.insert("distinct_tails_swept".into(), tails.len() as u64);
    if let Some(s) = samples.first() {
        res.samples.push(format!("swept message ({}): {} => every single-bit fault{}", s.origin, crate::crypto::hex(&s.bytes), if integrity { " in the protected prefix and the MAC" } else { " and 4 byte-substitution classes at every position" }));
    }
    res
}

pub fn extra_c04(spec: &PropSpec, args: &CheckArgs) -> ExtraResult {
    let mut a = run_sweep(spec, args, true);
    let b = extra_c04_client(spec, args);
    a.evaluations += b.evaluations;
    a.distinct.extend(b.distinct);
    for (k, c) in b.counters {
        *a.counters.entry(k).or_insert(0) += c;
    }
    a.violations.extend(b.violations);
    a.samples.push("client-side sweep: every single-bit fault in the protected prefix and the MAC of an authenticated, delivered response re-applied in flight by exact re-execution of the plan; the waiting client must never deliver it".to_string());
    a
}

pub fn extra_c10(spec: &PropSpec, args: &CheckArgs) -> ExtraResult {
    run_sweep(spec, args, false)
}

pub fn sample_entry(s: &Sample, kind: &str) -> String {
    format!(
        "kind={} msg={} rawkey={} keykind={} user={} realm={} password={} sha={}",
        kind,
        crate::crypto::hex(&s.bytes),
        crate::crypto::hex(&s.raw_key),
        s.keyspec.0,
        crate::crypto::hex(s.keyspec.1.as_bytes()),
        crate::crypto::hex(s.keyspec.2.as_bytes()),
        crate::crypto::hex(s.keyspec.3.as_bytes()),
        s.keyspec.4 as u8
    )
}

/// Replays one C04 / C10 sweep case (the whole message is swept again).
pub fn replay_sweep_bits(kv: &crate::plan::Kv) -> Vec<Violation> {
    use crate::plan::{kv_str, kv_u64};
    let kind = kv_str(kv, "kind", "");
    let hx = |k: &str| -> String { crate::crypto::unhex(&kv_str(kv, k, "")).map(|b| String::from_utf8_lossy(&b).to_string()).unwrap_or_default() };
    let Some(msg) = crate::crypto::unhex(&kv_str(kv, "msg", "")) else { return vec![] };
    let s = Sample {
        bytes: msg,
        raw_key: crate::crypto::unhex(&kv_str(kv, "rawkey", "")).unwrap_or_default(),
        keyspec: (kv_str(kv, "keykind", "st"), hx("user"), hx("realm"), hx("password"), kv_u64(kv, "sha", 0) != 0),
        origin: "replay".into(),
    };
    let mut res = ExtraResult::default();
    if kind == "c10" {
        sweep_fingerprint_message(&s, &mut res, true);
    } else if kind == "c04" {
        sweep_integrity_message(&s, &mut res, true);
    }
    res.violations.into_iter().map(|(v, _)| v).collect()
}

// ---------------------------------------------------------------------------------------------
// C03 ledger check
// ---------------------------------------------------------------------------------------------

pub fn check_c03(l: &Ledger, entries: &[(String, String)], spec: &PropSpec) -> Vec<Violation> {
    let mut out = vec![];
    if let Some((_, v)) = entries.iter().find(|(k, _)| k == "sweep") {
        let kv = crate::plan::parse_kv(v);
        if crate::plan::kv_str(&kv, "kind", "") == "c03x" {
            let k = crate::plan::kv_u64(&kv, "k", 0);
            let variant = crate::plan::kv_u64(&kv, "variant", 0);
            let bytes = crate::server::extra_probe_message(k, variant);
            return tap_c03(&bytes, None, k * 7 + variant).into_iter().map(|(key, d)| viol("C03", key, 0, d)).collect();
        }
    }
    if let Some((idx, msg)) = l.panicked() {
        let st = &l.steps[idx];
        let loc = msg.rsplit(" at ").next().unwrap_or("?").to_string();
        let call = match &st.call {
            Call::Recv { .. } => "on_buffer_recv",
            Call::SendRequest { .. } => "send_request",
            Call::SendIndication { .. } => "send_indication",
            Call::Timeout { .. } => "on_timeout",
            Call::Restart => "restart",
        };
        let detail = match &st.call {
            Call::Recv { bytes, fault, .. } => format!("step {}: {} panicked ({}) on [{}] {}", idx, call, msg, fault, crate::crypto::hex(bytes)),
            _ => format!("step {}: {} panicked ({})", idx, call, msg),
        };
        out.push(viol("C03", format!("C03/panic-in-client({},{})", call, loc), idx, detail));
        return out;
    }
    let lib_key = match &l.cfg.mech {
        Mech::ShortTerm(_) => libtap::short_term_key(&l.cfg.password),
        Mech::LongTerm => libtap::long_term_key(&l.cfg.user, &l.cfg.realm, &l.cfg.password, true),
        Mech::None => None,
    };
    let mut n = 0u64;
    for st in &l.steps {
        let Call::Recv { bytes, fault, .. } = &st.call else { continue };
        if fault.is_empty() && n > 2 {
            continue; // untouched server messages: tap only a few of them
        }
        n += 1;
        for (k, d) in tap_c03(bytes, lib_key.as_ref(), st.idx as u64 * 7919 + bytes.len() as u64) {
            out.push(viol("C03", k, st.idx, format!("step {} [{}]: {}", st.idx, fault, d)));
        }
        // the same bytes through the stream reassembler in a seeded chunking: value or error, never a panic
        if let Some(loc) = reassemble_no_panic(bytes, st.idx as u64) {
            out.push(viol("C03", format!("C03/panic-in-reassembler({})", loc), st.idx, format!("step {}: StunPacketDecoder panicked on {}", st.idx, crate::crypto::hex(bytes))));
        }
    }
    // "remains usable": the continuation after rejected hostile buffers equals the twin run without them
    if out.is_empty() {
        for mut v in crate::oracle_twin::check_c17(l, entries, spec) {
            v.prop = "C03";
            v.key = v.key.replace("C17/", "C03/not-usable-after-hostile-bytes:");
            out.push(v);
        }
    }
    out
}

fn reassemble_no_panic(bytes: &[u8], seed: u64) -> Option<String> {
    use std::panic::{catch_unwind, AssertUnwindSafe};
    use stun_agent::{StunPacketDecodedValue, StunPacketDecoder};
    let mut rng = Rng::new(seed ^ 0xabcdef);
    let buf_size = *rng.pick(&[20usize, 64, 1500, 70000]);
    let r = catch_unwind(AssertUnwindSafe(|| {
        let Ok(mut dec) = StunPacketDecoder::new(vec![0; buf_size]) else { return };
        let mut off = 0;
        let mut guard = 0;
        while off <= bytes.len() && guard < 200 {
            guard += 1;
            let take = (rng.below(40) as usize).min(bytes.len() - off);
            match dec.decode(&bytes[off..off + take]) {
                Ok(StunPacketDecodedValue::Decoded((_, consumed))) => {
                    off += consumed.max(1);
                    match StunPacketDecoder::new(vec![0; buf_size]) {
                        Ok(d) => dec = d,
                        Err(_) => return,
                    }
                }
                Ok(StunPacketDecodedValue::MoreBytesNeeded((d, _))) => {
                    dec = d;
                    off += take;
                    if off >= bytes.len() {
                        return;
                    }
                }
                Err(_) => return,
            }
        }
    }));
    r.err().map(|_| world::take_panic_loc())
}

pub fn c03_cases(l: &Ledger) -> Vec<u64> {
    let mut out = vec![];
    for (i, st) in l.steps.iter().enumerate() {
        let Call::Recv { bytes, fault, .. } = &st.call else { continue };
        if fault.is_empty() {
            continue;
        }
        let state = if i > 0 { l.steps[i - 1].snap.cred.split(" params").next().unwrap_or("").to_string() } else { String::new() };
        let dec = match libtap::decode(&libtap::decoder(Opts { key: false, validation: false, unknown_data: false, not_ignore: false }, None), bytes) {
            DecodeOutcome::Ok(_) => 0u8,
            DecodeOutcome::Err(e) => {
                if e.contains("message level") || bytes.len() < 20 {
                    continue; // undecodable at the header: trivial
                }
                1
            }
            DecodeOutcome::Panic(_) => 2,
        };
        let outcome = match (&st.result, st.events.first()) {
            (CallResult::Ok, Some(Ev::Received(_))) => 0u8,
            (CallResult::Ok, Some(Ev::Retry(_))) => 1,
            (CallResult::Ok, Some(Ev::Failed(..))) => 2,
            (CallResult::Err(_), _) => 3,
            _ => 4,
        };
        out.push(hash_of(&(state, fault.clone(), dec, outcome, l.steps[i.saturating_sub(1)].snap.outstanding.len().min(4))));
    }
    out
}

#[allow(dead_code)]
fn _alg(_: Alg) {}

// ---------------------------------------------------------------------------------------------
// C03: systematic structure-aware sweep (length fields at header / attribute / nested level set to
// every value from zero to a little beyond the original; multi-byte UTF-8 and quoting characters
// injected at every offset of every string attribute) on valid in-flight messages, each variant
// (a) decoded in all 16 configurations and (b) delivered to the client in the state it was in when
// the original message arrived (exact re-execution of the plan with that one delivery replaced).
// ---------------------------------------------------------------------------------------------

fn c03_variants(bytes: &[u8]) -> Vec<String> {
    let mut v = vec![];
    let Ok(p) = wire::parse(bytes) else { return v };
    let hl = p.len as u64;
    for x in (0..=hl + 8).filter(|x| *x != hl) {
        v.push(format!("corrupt=hdrlen-set v={}", x));
    }
    for (i, a) in p.attrs.iter().enumerate() {
        let l = a.value.len() as u64;
        let hi = (l + 8).min(l + (bytes.len() as u64).saturating_sub((a.off + 4) as u64 + l) + 4);
        for x in (0..=hi).filter(|x| *x != l) {
            v.push(format!("corrupt=attrlen-set idx={} v={}", i, x));
        }
    }
    let nests: Vec<&wire::RawAttr> = p.attrs.iter().filter(|a| a.typ == wire::A_PASSWORD_ALGORITHMS || a.typ == wire::A_PASSWORD_ALGORITHM).collect();
    for (ni, a) in nests.iter().enumerate() {
        let mut pos = 0usize;
        let mut k = 0usize;
        while pos + 4 <= a.value.len() {
            let l = u16::from_be_bytes([a.value[pos + 2], a.value[pos + 3]]) as u64;
            for x in (0..=l + 9).chain(0xFFF8..=0xFFFF).filter(|x| *x != l) {
                v.push(format!("corrupt=nested-set idx={} k={} v={}", ni, k, x));
            }
            pos += 4 + wire::pad4(l as usize);
            k += 1;
        }
    }
    let strs: Vec<&wire::RawAttr> = p
        .attrs
        .iter()
        .filter(|a| matches!(a.typ, wire::A_NONCE | wire::A_REALM | wire::A_SOFTWARE | wire::A_USERNAME | wire::A_ERROR_CODE))
        .collect();
    for (si, a) in strs.iter().enumerate() {
        let lo = if a.typ == wire::A_ERROR_CODE { 4.min(a.value.len()) } else { 0 };
        for pos in 0..=(a.value.len() - lo) {
            for val in 0..6 {
                v.push(format!("corrupt=utf8 idx={} pos={} val={}", si, pos, val));
            }
        }
        // every (lead, trail) pair of the "twice-encoded" family at the start, in the middle and at the end
        // (leads U+00C2, U+00C3: every trail; U+00E2, U+00FD and the middle position: a sample of trails)
        for pos in [0usize, 1000] {
            for val in 6..6 + 128 {
                v.push(format!("corrupt=utf8 idx={} pos={} val={}", si, pos, val));
            }
            for val in (6 + 128..6 + 256).step_by(9) {
                v.push(format!("corrupt=utf8 idx={} pos={} val={}", si, pos, val));
            }
        }
        for val in (6..6 + 256).step_by(11) {
            v.push(format!("corrupt=utf8 idx={} pos={} val={}", si, (a.value.len() - lo) / 2, val));
        }
    }
    v
}

pub fn extra_c03(spec: &PropSpec, args: &CheckArgs) -> ExtraResult {
    let thorough = args.tier == "thorough";
    let n_runs: u64 = if thorough { 20000 } else { 2000 };
    let max_msgs: usize = if thorough { 2500 } else { 160 };
    // a calm profile: conversations with server variety but without random network/timer faults, so that
    // the swept message is the only damage
    let mut calm = spec.clone();
    {
        let p = &mut calm.profile;
        p.p_perfect = 0;
        p.p_swarm_off = 0;
        p.n_inj = (0, 0);
        p.p_corrupt = 0;
        p.p_splice = 0;
        p.p_drop = 0;
        p.p_dup = 0;
        p.p_delay = 0;
        p.p_delay_huge = 0;
        p.p_timer_late = 0;
        p.p_timer_very_late = 0;
        p.p_timer_early = 0;
        p.p_srv_silent = 0;
        p.p_srv_integ = 0;
        p.p_srv_fp = 0;
        p.p_srv_hostile = 0;
        p.p_srv_dup = 0;
        p.p_srv_think = 0;
        p.p_srv_code = 200;
        p.p_srv_lt = 300;
        p.p_srv_more = 700;
        p.p_align = 0;
        p.p_long = 0;
        p.p_storm = 0;
    }
    calm.opts = world::RunOpts::default();
    // phase 1 (sequential, in run-index order, hence deterministic): pick the messages to sweep
    struct Cand {
        run: u64,
        entries: Vec<(String, String)>,
        step: usize,
        origin: Origin,
        bytes: Vec<u8>,
        shape: u64,
        cfg_pw: Vec<u8>,
        lib_key: Option<HMACKey>,
    }
    world::install_quiet_panic_hook();
    let mut cands: Vec<Cand> = vec![];
    let mut shapes: HashSet<u64> = HashSet::new();
    let mut run = 0u64;
    while run < n_runs && cands.len() < max_msgs {
        let (l, entries) = crate::runner::run_one(&calm, args.seed ^ 0xC03C03, run);
        run += 1;
        if l.panicked().is_some() {
            continue;
        }
        let lib_key = match &l.cfg.mech {
            Mech::ShortTerm(_) => libtap::short_term_key(&l.cfg.password),
            Mech::LongTerm => libtap::long_term_key(&l.cfg.user, &l.cfg.realm, &l.cfg.password, true),
            Mech::None => None,
        };
        for st in &l.steps {
            let Call::Recv { bytes, origin, fault } = &st.call else { continue };
            if !matches!(origin, Origin::S2c(..)) || !fault.is_empty() || st.phase == Phase::Probe {
                continue;
            }
            let Ok(p) = wire::parse(bytes) else { continue };
            if p.class < 2 {
                continue;
            }
            let state = l.steps.get(st.idx.saturating_sub(1)).map(|s| s.snap.cred.split(" params").next().unwrap_or("").to_string()).unwrap_or_default();
            let shape = hash_of(&(p.types(), p.class, p.error_code(), state, l.cfg.fp, l.cfg.is_reliable()));
            if !shapes.insert(shape) || cands.len() >= max_msgs {
                continue;
            }
            cands.push(Cand { run: run - 1, entries: entries.clone(), step: st.idx, origin: origin.clone(), bytes: bytes.clone(), shape, cfg_pw: l.cfg.pw().into_bytes(), lib_key: lib_key.clone() });
        }
    }
    // phase 2 (parallel): sweep
    let merged: std::sync::Mutex<ExtraResult> = std::sync::Mutex::new(ExtraResult::default());
    let nthreads = args.threads.max(1);
    let calm_ref = &calm;
    std::thread::scope(|sc| {
        for ch in cands.chunks((cands.len() + nthreads - 1) / nthreads.max(1)).map(|c| c.iter().collect::<Vec<_>>()) {
            let merged = &merged;
            sc.spawn(move || {
                world::install_quiet_panic_hook();
                let mut r = ExtraResult::default();
                for c in ch {
                    let Origin::S2c(ref n, cc) = c.origin else { continue };
                    *r.counters.entry("c03_sweep_messages".into()).or_insert(0) += 1;
                    for var in c03_variants(&c.bytes) {
                        let kv = crate::plan::parse_kv(&var);
                        let mut b2 = c.bytes.clone();
                        if world::apply_corruption(&mut b2, &kv, &c.cfg_pw).is_none() {
                            continue;
                        }
                        r.evaluations += 1;
                        let kind = var.split_whitespace().next().unwrap_or("").to_string();
                        *r.counters.entry(format!("c03_sweep_{}", kind.replace("corrupt=", ""))).or_insert(0) += 1;
                        let mut found: Vec<(String, String)> = tap_c03(&b2, c.lib_key.as_ref(), c.run * 31 + c.step as u64);
                        // exact re-execution with this one delivery replaced
                        let over = format!("n={} c={} {}", n, cc, var);
                        let mut e2 = c.entries.clone();
                        e2.push(("override".to_string(), over));
                        let l2 = crate::runner::replay_entries(calm_ref, &e2);
                        let outcome = match l2.panicked() {
                            Some((idx, msg)) => {
                                let loc = msg.rsplit(" at ").next().unwrap_or("?").to_string();
                                let call = match &l2.steps[idx].call {
                                    Call::Recv { .. } => "on_buffer_recv",
                                    Call::SendRequest { .. } => "send_request",
                                    Call::SendIndication { .. } => "send_indication",
                                    Call::Timeout { .. } => "on_timeout",
                                    Call::Restart => "restart",
                                };
                                // the replayed run stops at the client's panic: report under that key only
                                found.clear();
                                found.push((format!("C03/panic-in-client({},{})", call, loc), format!("step {}: {} after {}", idx, msg, var)));
                                9u8
                            }
                            None => {
                                let st2 = l2.steps.iter().find(|s| matches!(&s.call, Call::Recv { origin: o, .. } if *o == c.origin));
                                match st2.map(|s| (&s.result, s.events.first())) {
                                    Some((CallResult::Ok, Some(Ev::Received(_)))) => 0,
                                    Some((CallResult::Ok, Some(Ev::Retry(_)))) => 1,
                                    Some((CallResult::Ok, Some(Ev::Failed(..)))) => 2,
                                    Some((CallResult::Err(_), _)) => 3,
                                    _ => 4,
                                }
                            }
                        };
                        r.distinct.insert(hash_of(&(c.shape, kind, libtap::decodes(&b2), outcome)));
                        for (k, d) in found {
                            if r.violations.len() < 8 {
                                r.violations.push((viol("C03", k, c.step, d), e2.clone()));
                            }
                        }
                    }
                }
                let mut m = merged.lock().unwrap();
                m.evaluations += r.evaluations;
                m.distinct.extend(r.distinct);
                for (k, cnt) in r.counters {
                    *m.counters.entry(k).or_insert(0) += cnt;
                }
                m.violations.extend(r.violations);
            });
        }
    });
    let mut res = merged.into_inner().unwrap();
    // the table of further attribute kinds, each as a message of its own, through the wire tap
    for k in 0..crate::server::N_EXTRA_KINDS {
        for variant in 0..crate::server::N_EXTRA_VARIANTS {
            let bytes = crate::server::extra_probe_message(k, variant);
            res.evaluations += 1;
            for (key, d) in tap_c03(&bytes, None, k * 7 + variant) {
                res.violations.push((viol("C03", key, 0, format!("attribute kind {} variant {}: {}", k, variant, d)), vec![("sweep".to_string(), format!("kind=c03x k={} variant={}", k, variant))]));
            }
        }
    }
    res.counters.insert("c03_extra_kinds_usable".into(), crate::server::usable_extra_kinds().len() as u64);
    res.counters.insert("c03_extra_kinds_total".into(), crate::server::N_EXTRA_KINDS);
    res.samples.push("systematic sweep: for each sampled valid in-flight response, header / attribute / nested length fields set to every value 0..=original+8 and a multi-byte or quoting sequence injected at every offset of every string attribute; each variant decoded in 16 configurations and delivered to the client in the exact state it had when the original arrived".to_string());
    res
}

// ---------------------------------------------------------------------------------------------
// C04, client side: every single-bit fault in the protected prefix and in the MAC of an authenticated
// response is applied while the message is in flight to a client that is waiting for exactly that
// response (exact re-execution of the plan with that one delivery tampered): it must never be delivered.
// ---------------------------------------------------------------------------------------------

pub fn extra_c04_client(spec: &PropSpec, args: &CheckArgs) -> ExtraResult {
    let thorough = args.tier == "thorough";
    let n_runs: u64 = if thorough { 20000 } else { 3000 };
    let max_msgs: usize = if thorough { 1200 } else { 64 };
    let mut calm = spec.clone();
    {
        let p = &mut calm.profile;
        p.p_perfect = 0;
        p.p_swarm_off = 0;
        p.n_inj = (0, 0);
        p.p_corrupt = 0;
        p.p_splice = 0;
        p.p_drop = 0;
        p.p_dup = 0;
        p.p_delay = 0;
        p.p_delay_huge = 0;
        p.p_timer_late = 0;
        p.p_timer_very_late = 0;
        p.p_timer_early = 0;
        p.p_srv_silent = 0;
        p.p_srv_integ = 0;
        p.p_srv_fp = 0;
        p.p_srv_hostile = 0;
        p.p_srv_dup = 0;
        p.p_srv_think = 0;
        p.p_srv_code = 150;
        p.p_srv_lt = 100;
        p.p_srv_more = 300;
        p.p_align = 0;
        p.p_long = 0;
        p.p_storm = 0;
    }
    calm.opts = world::RunOpts::default();
    struct Cand {
        entries: Vec<(String, String)>,
        origin: Origin,
        bytes: Vec<u8>,
        protected_end: usize,
        shape: u64,
        reliable: bool,
    }
    world::install_quiet_panic_hook();
    let mut cands: Vec<Cand> = vec![];
    let mut shapes: BTreeMap<u64, usize> = BTreeMap::new();
    let mut run = 0u64;
    while run < n_runs && cands.len() < max_msgs {
        let (l, entries) = crate::runner::run_one(&calm, args.seed ^ 0xC04C, run);
        run += 1;
        if l.panicked().is_some() || l.cfg.mech == Mech::None {
            continue;
        }
        for st in &l.steps {
            let Call::Recv { bytes, origin, fault } = &st.call else { continue };
            if !matches!(origin, Origin::S2c(..)) || !fault.is_empty() || st.phase == Phase::Probe {
                continue;
            }
            let Ok(p) = wire::parse(bytes) else { continue };
            // only responses that the client accepted as authenticated (delivered)
            let delivered = st.events.iter().any(|e| matches!(e, Ev::Received(m) if m.id == p.txid && m.class >= 2));
            if !delivered {
                continue;
            }
            let types = p.types();
            let Some(i) = types.iter().position(|t| *t == wire::A_MI || *t == wire::A_MI256) else { continue };
            // the last integrity attribute decides the end of the region that at least one MAC protects
            let last = types.iter().rposition(|t| *t == wire::A_MI || *t == wire::A_MI256).unwrap_or(i);
            let a = &p.attrs[last];
            let shape = hash_of(&(types.clone(), p.class, crate::world::mech_to_str(&l.cfg.mech), l.cfg.fp, l.cfg.is_reliable()));
            let c = shapes.entry(shape).or_insert(0);
            if *c >= 2 || cands.len() >= max_msgs {
                continue;
            }
            *c += 1;
            cands.push(Cand { entries: entries.clone(), origin: origin.clone(), bytes: bytes.clone(), protected_end: a.off + 4 + a.value.len(), shape, reliable: l.cfg.is_reliable() });
        }
    }
    let merged: std::sync::Mutex<ExtraResult> = std::sync::Mutex::new(ExtraResult::default());
    let nthreads = args.threads.max(1);
    let calm_ref = &calm;
    std::thread::scope(|sc| {
        for ch in cands.chunks((cands.len() + nthreads - 1) / nthreads.max(1)).map(|c| c.iter().collect::<Vec<_>>()) {
            let merged = &merged;
            sc.spawn(move || {
                world::install_quiet_panic_hook();
                let mut r = ExtraResult::default();
                for c in ch {
                    let Origin::S2c(ref n, cc) = c.origin else { continue };
                    let Ok(p) = wire::parse(&c.bytes) else { continue };
                    *r.counters.entry("client_sweep_messages".into()).or_insert(0) += 1;
                    for bit in 0..c.protected_end * 8 {
                        let byte = bit / 8;
                        if byte == 2 || byte == 3 {
                            continue;
                        }
                        let mut e2 = c.entries.clone();
                        e2.push(("override".to_string(), format!("n={} c={} corrupt=bit pos={}", n, cc, bit)));
                        let l2 = crate::runner::replay_entries(calm_ref, &e2);
                        r.evaluations += 1;
                        *r.counters.entry("client_bit_faults_applied".into()).or_insert(0) += 1;
                        let st2 = l2.steps.iter().find(|s| matches!(&s.call, Call::Recv { origin: o, .. } if *o == c.origin));
                        let Some(st2) = st2 else { continue };
                        let got = st2.events.iter().any(|e| matches!(e, Ev::Received(m) if m.class >= 2 && m.id == p.txid));
                        let region = region_of(&p, byte);
                        let outcome = match (&st2.result, st2.events.first()) {
                            (CallResult::Err(_), _) => 0u8,
                            (CallResult::Ok, Some(Ev::Failed(..))) => 1,
                            (CallResult::Ok, Some(Ev::Received(_))) => 2,
                            _ => 3,
                        };
                        r.distinct.insert(hash_of(&(c.shape, region, outcome, c.reliable)));
                        if got && r.violations.len() < 6 {
                            r.violations.push((
                                viol(
                                    "C04",
                                    format!("C04/client-delivered-tampered-response(region={})", region),
                                    st2.idx,
                                    format!("after flipping bit {} (byte {}, {}) of an authenticated response in flight, the waiting client still delivered it", bit, byte, region),
                                ),
                                e2.clone(),
                            ));
                        }
                    }
                }
                let mut m = merged.lock().unwrap();
                m.evaluations += r.evaluations;
                m.distinct.extend(r.distinct);
                for (k, cnt) in r.counters {
                    *m.counters.entry(k).or_insert(0) += cnt;
                }
                m.violations.extend(r.violations);
            });
        }
    });
    merged.into_inner().unwrap()
}
