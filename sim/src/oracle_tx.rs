//! Ledger predicates for the transaction-lifecycle properties: C05 (single final outcome, then
//! silence), C06 (RFC 8489 retransmission schedule), C11 (timer notifications), C12 (capacity).

use crate::ledger::*;
use crate::wire;

fn v(prop: &'static str, key: String, step: usize, detail: String) -> Violation {
    Violation { prop, key, step, detail }
}

pub fn outcome_name(o: &Outcome) -> String {
    match o {
        Outcome::Delivered(2) => "Delivered(success)".into(),
        Outcome::Delivered(_) => "Delivered(error)".into(),
        Outcome::Failed(w) => format!("Failed({:?})", w),
        Outcome::Retry => "Retry".into(),
    }
}

/// Schedule predicted from (t0, RTO, Rc, Rm): retransmission slots s_1..s_{Rc-1} and deadline D.
pub struct Schedule {
    pub slots: Vec<u64>,
    pub deadline: u64,
}

pub fn schedule(t0: u64, rto: u64, rc: u32, rm: u32) -> Schedule {
    let mut slots = vec![];
    let mut acc = t0 as u128;
    let mut mult: u128 = 1;
    // s_k = t0 + (2^k - 1) * rto for k = 1 .. rc-1
    for _ in 1..rc {
        acc += rto as u128 * mult;
        slots.push(acc.min(u64::MAX as u128) as u64);
        mult *= 2;
    }
    let d = acc + rto as u128 * rm as u128;
    Schedule { slots, deadline: d.min(u64::MAX as u128) as u64 }
}

impl Schedule {
    /// The pending expiry of an awaiting transaction whose last transmission happened at `tau`.
    pub fn pending(&self, tau: u64) -> u64 {
        for s in &self.slots {
            if *s > tau {
                return *s;
            }
        }
        self.deadline
    }
}

fn tx_schedule(l: &Ledger, tx: &Tx) -> Schedule {
    let (rc, rm, _) = l.cfg.rc_rm_rto();
    schedule(tx.t0, tx.rto_ns, rc, rm)
}

fn last_tx_time_before(tx: &Tx, step: usize) -> u64 {
    tx.transmissions
        .iter()
        .filter(|(s, _, _)| *s < step)
        .map(|(_, t, _)| *t)
        .last()
        .unwrap_or(tx.t0)
}

fn last_tx_time_upto(tx: &Tx, step: usize) -> u64 {
    tx.transmissions
        .iter()
        .filter(|(s, _, _)| *s <= step)
        .map(|(_, t, _)| *t)
        .last()
        .unwrap_or(tx.t0)
}

fn liveness_applicable(l: &Ledger) -> bool {
    !l.truncated && l.quiesce_from.is_some() && l.panicked().is_none()
}

fn last_gen(l: &Ledger) -> u32 {
    l.steps.last().map(|s| s.gen).unwrap_or(0)
}

// ---------------------------------------------------------------------------------------------

pub fn check_c05(l: &Ledger) -> Vec<Violation> {
    let mut out = vec![];
    for tx in &l.txs {
        if tx.finals.len() > 1 {
            let (s, _, o2) = &tx.finals[1];
            out.push(v(
                "C05",
                format!("C05/second-final-outcome(first={},second={})", outcome_name(&tx.finals[0].2), outcome_name(o2)),
                *s,
                format!("tx#{} got a second final outcome at step {} after step {}", tx.k, s, tx.finals[0].0),
            ));
        }
        let Some(fs) = tx.final_step() else { continue };
        let first = outcome_name(&tx.finals[0].2);
        for st in l.steps.iter().skip(fs + 1) {
            if st.gen != tx.gen {
                continue;
            }
            for e in &st.events {
                match e {
                    Ev::Output(b) if b.len() >= 20 && b[8..20] == tx.id => out.push(v(
                        "C05",
                        format!("C05/packet-after-final(after={})", first),
                        st.idx,
                        format!("tx#{} finished at step {} but a packet with its id was emitted at step {}", tx.k, fs, st.idx),
                    )),
                    Ev::Timer(id, _) if *id == tx.id => out.push(v(
                        "C05",
                        format!("C05/timer-after-final(after={})", first),
                        st.idx,
                        format!("tx#{} finished at step {} but a timeout notification names it at step {}", tx.k, fs, st.idx),
                    )),
                    _ => {}
                }
            }
            if let Call::Recv { bytes, .. } = &st.call {
                if let Ok(p) = wire::parse(bytes) {
                    if p.class >= 2 && p.txid == tx.id {
                        let accepted = matches!(st.result, CallResult::Ok);
                        if accepted || !st.events.is_empty() {
                            out.push(v(
                                "C05",
                                format!("C05/late-response-not-discarded(after={})", first),
                                st.idx,
                                format!(
                                    "tx#{} finished at step {} ({}) but a response with its id at step {} returned {:?} with {} event(s)",
                                    tx.k,
                                    fs,
                                    first,
                                    st.idx,
                                    st.result,
                                    st.events.len()
                                ),
                            ));
                        }
                    }
                }
            }
        }
    }
    // a response is only ever delivered for a transaction that is still awaiting one
    for st in &l.steps {
        for e in &st.events {
            if let Ev::Received(m) = e {
                if m.class >= 2 {
                    let ok = l
                        .txs
                        .iter()
                        .any(|t| t.id == m.id && t.gen == st.gen && t.awaiting_before(st.idx));
                    if !ok {
                        out.push(v(
                            "C05",
                            "C05/response-delivered-for-non-awaiting".into(),
                            st.idx,
                            format!("a response for {} was delivered at step {} but no request was awaiting it", idhex(&m.id), st.idx),
                        ));
                    }
                }
            }
        }
    }
    if liveness_applicable(l) {
        let g = last_gen(l);
        for tx in &l.txs {
            if tx.gen == g && tx.finals.is_empty() {
                out.push(v(
                    "C05",
                    "C05/no-final-outcome-at-quiescence".into(),
                    l.steps.len().saturating_sub(1),
                    format!("tx#{} (sent at step {}) never reached a final outcome although faults stopped and all timers were served", tx.k, tx.step_sent),
                ));
            }
        }
    }
    out
}

// ---------------------------------------------------------------------------------------------

pub fn check_c12(l: &Ledger) -> Vec<Violation> {
    let mut out = vec![];
    for st in &l.steps {
        let Call::SendRequest { .. } = &st.call else { continue };
        let count = l
            .txs
            .iter()
            .filter(|t| t.gen == st.gen && t.awaiting_before(st.idx))
            .count();
        let refused = matches!(st.result, CallResult::Err(ErrKind::MaxOutstanding));
        let expect = count >= l.cfg.max_tx;
        if refused && !expect {
            out.push(v(
                "C12",
                "C12/refused-below-limit".into(),
                st.idx,
                format!("send_request refused at step {} with {} unfinished request(s), limit {}", st.idx, count, l.cfg.max_tx),
            ));
        }
        if !refused && expect && !matches!(st.result, CallResult::Panic(_)) {
            out.push(v(
                "C12",
                "C12/accepted-at-limit".into(),
                st.idx,
                format!("send_request returned {:?} at step {} with {} unfinished request(s), limit {}", st.result, st.idx, count, l.cfg.max_tx),
            ));
        }
        if refused && !st.events.is_empty() {
            out.push(v(
                "C12",
                "C12/refused-request-produced-events".into(),
                st.idx,
                format!("refused send_request at step {} produced {} event(s)", st.idx, st.events.len()),
            ));
        }
    }
    for st in &l.steps {
        if let Call::SendIndication { .. } = &st.call {
            if st.events.iter().any(|e| matches!(e, Ev::Timer(..))) {
                out.push(v(
                    "C12",
                    "C12/indication-armed-timer".into(),
                    st.idx,
                    format!("send_indication at step {} produced a timeout notification", st.idx),
                ));
            }
        }
    }
    if liveness_applicable(l) {
        let g = last_gen(l);
        let left = l.txs.iter().filter(|t| t.gen == g && t.finals.is_empty()).count();
        if left > 0 {
            out.push(v(
                "C12",
                "C12/slots-in-use-at-quiescence".into(),
                l.steps.len().saturating_sub(1),
                format!("{} request(s) still unfinished at quiescence", left),
            ));
        }
    }
    out
}

// ---------------------------------------------------------------------------------------------

pub fn check_c06(l: &Ledger) -> Vec<Violation> {
    let mut out = vec![];
    let (rc, _, _) = l.cfg.rc_rm_rto();
    let rel = if l.cfg.is_reliable() { "reliable" } else { "unreliable" };
    for tx in &l.txs {
        let sch = tx_schedule(l, tx);
        match tx.transmissions.first() {
            Some((s, _, _)) if *s == tx.step_sent => {}
            _ => out.push(v(
                "C06",
                "C06/no-initial-transmission".into(),
                tx.step_sent,
                format!("tx#{}: send_request succeeded at step {} without emitting the packet", tx.k, tx.step_sent),
            )),
        }
        if tx.transmissions.len() > rc as usize {
            let (s, _, _) = tx.transmissions[rc as usize];
            out.push(v(
                "C06",
                format!("C06/too-many-transmissions({})", rel),
                s,
                format!("tx#{}: {} transmissions, Rc={}", tx.k, tx.transmissions.len(), rc),
            ));
        }
        if let Some((_, _, first)) = tx.transmissions.first() {
            for (s, _, b) in tx.transmissions.iter().skip(1) {
                if b != first {
                    out.push(v(
                        "C06",
                        "C06/retransmission-differs".into(),
                        *s,
                        format!("tx#{}: retransmission at step {} is not byte-identical to the first transmission", tx.k, s),
                    ));
                }
            }
        }
        for (s, _, _) in &tx.transmissions {
            if *s != tx.step_sent && !matches!(l.steps[*s].call, Call::Timeout { .. }) {
                out.push(v(
                    "C06",
                    "C06/transmission-outside-timer-call".into(),
                    *s,
                    format!("tx#{}: packet emitted at step {} which is neither its send nor a timer call", tx.k, s),
                ));
            }
        }
        for st in &l.steps {
            if st.gen != tx.gen || !matches!(st.call, Call::Timeout { .. }) || !tx.awaiting_before(st.idx) {
                continue;
            }
            if matches!(st.result, CallResult::Panic(_)) {
                continue;
            }
            let now = st.t;
            let tau = last_tx_time_before(tx, st.idx);
            let exp = sch.pending(tau);
            let outs = st
                .events
                .iter()
                .filter(|e| matches!(e, Ev::Output(b) if b.len() >= 20 && b[8..20] == tx.id))
                .count();
            let failed = st.events.iter().any(|e| {
                matches!(e, Ev::Failed(id, w) if *id == tx.id && matches!(w, Why::TimedOut | Why::ProtectionViolated))
            });
            let late = now.saturating_sub(exp);
            let lateness = if late == 0 { "on-time" } else { "late" };
            if now >= exp {
                if now >= sch.deadline {
                    if !failed {
                        out.push(v(
                            "C06",
                            format!("C06/no-failure-at-deadline({},{})", rel, lateness),
                            st.idx,
                            format!(
                                "tx#{}: on_timeout at {} ns >= deadline {} ns (t0={}, rto={}) did not report the time-out",
                                tx.k, now, sch.deadline, tx.t0, tx.rto_ns
                            ),
                        ));
                    }
                    if outs > 0 {
                        out.push(v(
                            "C06",
                            format!("C06/transmission-at-or-after-deadline({})", rel),
                            st.idx,
                            format!("tx#{}: packet emitted at {} ns, deadline {} ns", tx.k, now, sch.deadline),
                        ));
                    }
                } else {
                    if failed {
                        out.push(v(
                            "C06",
                            format!("C06/failure-before-deadline({},{})", rel, lateness),
                            st.idx,
                            format!(
                                "tx#{}: reported timed out at {} ns, deadline {} ns (t0={}, rto={}, last transmission {})",
                                tx.k, now, sch.deadline, tx.t0, tx.rto_ns, tau
                            ),
                        ));
                    } else if outs != 1 {
                        out.push(v(
                            "C06",
                            format!("C06/retransmission-count-in-slot({},{},n={})", rel, lateness, outs),
                            st.idx,
                            format!(
                                "tx#{}: on_timeout at {} ns, pending expiry {} ns (last transmission {}): {} packets emitted, expected 1",
                                tx.k, now, exp, tau, outs
                            ),
                        ));
                    }
                }
            } else {
                if outs > 0 {
                    out.push(v(
                        "C06",
                        format!("C06/transmission-before-slot({})", rel),
                        st.idx,
                        format!(
                            "tx#{}: packet emitted at {} ns before its pending expiry {} ns (t0={}, rto={}, last transmission {})",
                            tx.k, now, exp, tx.t0, tx.rto_ns, tau
                        ),
                    ));
                }
                if failed {
                    out.push(v(
                        "C06",
                        format!("C06/failure-before-deadline({},early-call)", rel),
                        st.idx,
                        format!("tx#{}: reported timed out at {} ns before pending expiry {} ns", tx.k, now, exp),
                    ));
                }
            }
        }
    }
    out
}

// ---------------------------------------------------------------------------------------------

pub fn check_c11(l: &Ledger) -> Vec<Violation> {
    let mut out = vec![];
    for st in &l.steps {
        let relevant = match (&st.call, &st.result) {
            (Call::SendRequest { .. }, CallResult::OkId(_)) => true,
            (Call::Timeout { .. }, CallResult::Ok) => true,
            _ => false,
        };
        if !relevant {
            continue;
        }
        let callname = if matches!(st.call, Call::Timeout { .. }) { "on_timeout" } else { "send_request" };
        let now = st.t;
        let awaiting: Vec<&Tx> = l
            .txs
            .iter()
            .filter(|t| t.gen == st.gen && t.awaiting_after(st.idx))
            .collect();
        let timers: Vec<(usize, &Id, u64)> = st
            .events
            .iter()
            .enumerate()
            .filter_map(|(i, e)| match e {
                Ev::Timer(id, d) => Some((i, id, *d)),
                _ => None,
            })
            .collect();
        if awaiting.is_empty() {
            if !timers.is_empty() {
                out.push(v(
                    "C11",
                    format!("C11/notification-without-awaiting-request({})", callname),
                    st.idx,
                    format!("step {}: timeout notification issued although no request is awaiting a response", st.idx),
                ));
            }
            continue;
        }
        if timers.is_empty() {
            out.push(v(
                "C11",
                format!("C11/missing-notification({})", callname),
                st.idx,
                format!("step {}: {} request(s) awaiting but no timeout notification was issued", st.idx, awaiting.len()),
            ));
            continue;
        }
        if timers.len() > 1 {
            out.push(v(
                "C11",
                format!("C11/multiple-notifications({})", callname),
                st.idx,
                format!("step {}: {} timeout notifications in one call", st.idx, timers.len()),
            ));
        }
        let (pos, id, d) = timers[timers.len() - 1];
        if pos != st.events.len() - 1 {
            out.push(v(
                "C11",
                format!("C11/notification-not-last({})", callname),
                st.idx,
                format!("step {}: the timeout notification is not the last event", st.idx),
            ));
        }
        let exps: Vec<(u64, &Tx)> = awaiting
            .iter()
            .map(|t| (tx_schedule(l, t).pending(last_tx_time_upto(t, st.idx)), *t))
            .collect();
        let min_exp = exps.iter().map(|(e, _)| *e).min().unwrap();
        match exps.iter().find(|(_, t)| &t.id == id) {
            None => out.push(v(
                "C11",
                format!("C11/notification-names-non-awaiting-request({})", callname),
                st.idx,
                format!("step {}: notification names {} which is not awaiting a response", st.idx, idhex(id)),
            )),
            Some((e, t)) => {
                if *e != min_exp {
                    out.push(v(
                        "C11",
                        format!("C11/notification-not-earliest({})", callname),
                        st.idx,
                        format!(
                            "step {}: notification names tx#{} (pending expiry {} ns) but the earliest pending expiry is {} ns",
                            st.idx, t.k, e, min_exp
                        ),
                    ));
                }
            }
        }
        let want = min_exp.saturating_sub(now);
        if d != want {
            out.push(v(
                "C11",
                format!("C11/wrong-remaining-time({},{})", callname, if want == 0 { "overdue" } else if d > want { "too-long" } else { "too-short" }),
                st.idx,
                format!("step {} at {} ns: notification gives {} ns, earliest pending expiry {} ns => expected {} ns", st.idx, now, d, min_exp, want),
            ));
        }
        if matches!(st.call, Call::Timeout { .. }) {
            for t in &awaiting {
                let sch = tx_schedule(l, t);
                if sch.deadline <= now {
                    out.push(v(
                        "C11",
                        "C11/overdue-request-still-awaiting".into(),
                        st.idx,
                        format!("step {}: on_timeout at {} ns left tx#{} awaiting although its deadline {} ns has passed", st.idx, now, t.k, sch.deadline),
                    ));
                }
            }
        }
    }
    if liveness_applicable(l) {
        let g = last_gen(l);
        for tx in &l.txs {
            if tx.gen == g && tx.finals.is_empty() {
                out.push(v(
                    "C11",
                    "C11/request-stranded-without-timer".into(),
                    l.steps.len().saturating_sub(1),
                    format!("tx#{} never reached a final outcome although the controller served every notification", tx.k),
                ));
            }
        }
    }
    out
}

// ---------------------------------------------------------------------------------------------

/// Bounded liveness once faults have stopped: a fresh request is delivered within 3 exchanges
/// (challenge, retry, success at most). Returns (exchanges, last outcome) on failure.
pub fn fresh_probe_failure(l: &Ledger) -> Option<(usize, String)> {
    let app = l.fresh_probe_app?;
    if l.truncated || l.panicked().is_some() {
        return None;
    }
    // only demanded when a round trip fits into the request's lifetime at all
    let (rc, rm, rto) = l.cfg.rc_rm_rto();
    let deadline = schedule(0, rto, rc, rm).deadline;
    if 2 * l.cfg.lat_ns + 1_000_000 >= deadline {
        return None;
    }
    let g = last_gen(l);
    let chain: Vec<&Tx> = l.txs.iter().filter(|t| t.app == app && t.gen == g).collect();
    if chain.is_empty() {
        // the send itself failed. A refusal for want of capacity (limit 0) is nothing to demand; but a client
        // that has nothing outstanding, is given an ample buffer and no application attributes and still cannot
        // form a request has been made unusable by what it received earlier
        for st in l.steps.iter().rev() {
            if let Call::SendRequest { app: a, .. } = &st.call {
                if *a == app && st.gen == g {
                    if let CallResult::Err(ErrKind::Internal(msg)) = &st.result {
                        let cut: String = msg.chars().take(60).collect();
                        let _ = cut;
                        return Some((0, "request cannot be formed".to_string()));
                    }
                    break;
                }
            }
        }
        return None;
    }
    let last = chain.last().unwrap();
    match last.finals.first() {
        Some((_, _, Outcome::Delivered(2))) if chain.len() <= 3 => None,
        Some((_, _, o)) => Some((chain.len(), outcome_name(o))),
        None => Some((chain.len(), "no outcome".to_string())),
    }
}
