//! The simulated world: discrete-event loop, controller, network, timer service, reference
//! server and the real `StunClient`. One call of `run` = one exactly repeatable execution,
//! fully determined by the decisions the `Source` hands out.

use crate::ledger::*;
use crate::plan::*;
use crate::prng::Rng;
use crate::server::{splice_suffix, Alg, Mech, RefServer, ServerCfg};
use crate::wire;
use std::cmp::Reverse;
use std::collections::{BTreeSet, BinaryHeap};
use std::panic::{catch_unwind, AssertUnwindSafe};
use std::time::{Duration, Instant};
use stun_agent::{
    CredentialMechanism, Integrity, RttConfig, StunAgentError, StunAttributes, StunClient, StunClientEvent,
    StunClienteBuilder, StunTransactionError, TransportReliability,
};
use stun_rs::attributes::ice::Priority;
use stun_rs::attributes::stun::{
    Fingerprint, MessageIntegrity, MessageIntegritySha256, Nonce, PasswordAlgorithm, PasswordAlgorithms, Realm,
    Software, UserHash, UserName,
};
use stun_rs::attributes::turn::LifeTime;
use stun_rs::{Algorithm, AlgorithmId, HMACKey, MessageClass, MessageMethod};

pub const MS: u64 = 1_000_000;
pub const SEC: u64 = 1_000_000_000;
pub const STEP_CAP: usize = 2500;

// ---------------------------------------------------------------------------------------------
// Generation profile (only used when decisions are generated; never needed for replay)
// ---------------------------------------------------------------------------------------------

/// Rates are per mille.
#[derive(Clone, Debug)]
pub struct Profile {
    pub name: &'static str,
    pub p_reliable: u64,
    /// weights: none, st(unset), st(mi), st(sha), long-term
    pub mech_w: [u64; 5],
    pub p_fp: u64,
    pub max_tx: &'static [usize],
    pub rc: (u64, u64),
    pub rm: (u64, u64),
    pub rto_ms: (u64, u64),
    pub p_default_timing: u64,
    pub n_app: (u64, u64),
    pub n_inj: (u64, u64),
    /// gap between application actions, log-uniform in [lo, hi] ns
    pub app_gap_ns: (u64, u64),
    pub p_gap_600s: u64,
    pub p_indication: u64,
    pub p_app_attrs: u64,
    pub p_app_collide: u64,
    pub p_short_buf: u64,
    pub lat_ns: (u64, u64),
    pub p_drop: u64,
    pub p_dup: u64,
    pub p_delay: u64,
    pub p_delay_huge: u64,
    pub p_corrupt: u64,
    pub p_splice: u64,
    pub p_timer_late: u64,
    pub p_timer_very_late: u64,
    pub p_timer_early: u64,
    pub p_srv_silent: u64,
    pub p_srv_code: u64,
    pub p_srv_integ: u64,
    pub p_srv_fp: u64,
    pub p_srv_lt: u64,
    pub p_srv_dup: u64,
    pub p_srv_think: u64,
    pub p_srv_hostile: u64,
    /// server replies carrying further valid attributes of other kinds (TURN, ICE, discovery, mobility)
    pub p_srv_more: u64,
    pub p_retry_ignore: u64,
    pub p_retry_delay: u64,
    /// weights of injection kinds: late-dup replay, unknown-id response, request-class, indication,
    /// random bytes, non-stun, spurious timeout, stall, restart, finished-id response
    pub inj_w: [u64; 10],
    pub p_lenient: u64,
    /// swarm: each fault group is switched off for the run with this probability
    pub p_swarm_off: u64,
    pub p_perfect: u64,
    /// bias towards instants that coincide with schedule boundaries (slots, deadlines), +-1 ns
    pub p_align: u64,
    /// requests issued back to back (same instant or 1 ns apart)
    pub p_burst: u64,
    /// occasionally a much longer history (ten times the application actions, up to 150)
    pub p_long: u64,
    pub p_storm: u64,
    pub p_zero_lat: u64,
}

impl Profile {
    pub fn base(name: &'static str) -> Profile {
        Profile {
            name,
            p_reliable: 300,
            mech_w: [3, 2, 1, 1, 3],
            p_fp: 400,
            max_tx: &[1, 2, 3, 4, 10, 10],
            rc: (1, 8),
            rm: (1, 20),
            rto_ms: (20, 3000),
            p_default_timing: 300,
            n_app: (1, 5),
            n_inj: (0, 3),
            app_gap_ns: (MS, 20 * SEC),
            p_gap_600s: 0,
            p_indication: 100,
            p_app_attrs: 400,
            p_app_collide: 150,
            p_short_buf: 30,
            lat_ns: (1000, 200 * MS),
            p_drop: 150,
            p_dup: 80,
            p_delay: 100,
            p_delay_huge: 30,
            p_corrupt: 40,
            p_splice: 20,
            p_timer_late: 120,
            p_timer_very_late: 30,
            p_timer_early: 40,
            p_srv_silent: 80,
            p_srv_code: 60,
            p_srv_integ: 100,
            p_srv_fp: 40,
            p_srv_lt: 100,
            p_srv_dup: 40,
            p_srv_think: 60,
            p_srv_hostile: 0,
            p_srv_more: 120,
            p_retry_ignore: 100,
            p_retry_delay: 200,
            inj_w: [3, 2, 1, 2, 1, 1, 2, 1, 0, 3],
            p_lenient: 800,
            p_swarm_off: 300,
            p_perfect: 50,
            p_align: 120,
            p_burst: 60,
            p_long: 30,
            p_storm: 15,
            p_zero_lat: 25,
        }
    }
}

// ---------------------------------------------------------------------------------------------
// Cfg <-> text
// ---------------------------------------------------------------------------------------------

pub fn mech_to_str(m: &Mech) -> &'static str {
    match m {
        Mech::None => "none",
        Mech::ShortTerm(None) => "st",
        Mech::ShortTerm(Some(Alg::Mi)) => "st-mi",
        Mech::ShortTerm(Some(Alg::Sha)) => "st-sha",
        Mech::LongTerm => "lt",
    }
}

pub fn mech_from_str(s: &str) -> Mech {
    match s {
        "st" => Mech::ShortTerm(None),
        "st-mi" => Mech::ShortTerm(Some(Alg::Mi)),
        "st-sha" => Mech::ShortTerm(Some(Alg::Sha)),
        "lt" => Mech::LongTerm,
        _ => Mech::None,
    }
}

/// Escapes a credential string for the one-line cfg record (whitespace of any kind, '=' and '%' and
/// everything outside printable ASCII become %XX per UTF-8 byte).
pub fn esc(s: &str) -> String {
    let mut o = String::new();
    for b in s.bytes() {
        if b.is_ascii_graphic() && b != b'%' && b != b'=' {
            o.push(b as char);
        } else {
            o.push_str(&format!("%{:02X}", b));
        }
    }
    o
}

pub fn unesc(s: &str) -> String {
    let b = s.as_bytes();
    let mut out = vec![];
    let mut i = 0;
    while i < b.len() {
        if b[i] == b'%' && i + 2 < b.len() + 1 && s.is_char_boundary(i + 1) && s.is_char_boundary(i + 3) {
            if let Ok(v) = u8::from_str_radix(&s[i + 1..i + 3], 16) {
                out.push(v);
                i += 3;
                continue;
            }
        }
        out.push(b[i]);
        i += 1;
    }
    String::from_utf8_lossy(&out).to_string()
}

pub fn cfg_to_line(c: &Cfg) -> String {
    let tr = match c.transport {
        Transport::Unreliable { rto_ns, gran_ns, rm, rc } => {
            format!("transport=unreliable rto={} gran={} rm={} rc={}", rto_ns, gran_ns, rm, rc)
        }
        Transport::Reliable { timeout_ns } => format!("transport=reliable timeout={}", timeout_ns),
    };
    format!(
        "{} max_tx={} mech={} fp={} user={} password={} realm={} cookie={} anon={} algs={} legacy={} lenient={} lat={} n_app={} n_inj={} retries={} txid_seed={} profile={} storm={}",
        tr,
        c.max_tx,
        mech_to_str(&c.mech),
        c.fp as u8,
        esc(&c.user),
        esc(&c.password),
        c.realm,
        c.srv_cookie as u8,
        c.srv_anon as u8,
        c.srv_algs,
        c.srv_legacy as u8,
        c.srv_lenient as u8,
        c.lat_ns,
        c.n_app,
        c.n_inj,
        c.retry_budget,
        c.txid_seed,
        c.profile,
        c.storm as u8
    )
}

pub fn cfg_from_line(s: &str) -> Cfg {
    let kv = parse_kv(s);
    let transport = if kv_str(&kv, "transport", "unreliable") == "reliable" {
        Transport::Reliable { timeout_ns: kv_u64(&kv, "timeout", 39_500 * MS) }
    } else {
        Transport::Unreliable {
            rto_ns: kv_u64(&kv, "rto", 500 * MS),
            gran_ns: kv_u64(&kv, "gran", MS),
            rm: kv_u64(&kv, "rm", 16) as u32,
            rc: kv_u64(&kv, "rc", 7) as u32,
        }
    };
    Cfg {
        transport,
        max_tx: kv_u64(&kv, "max_tx", 10) as usize,
        mech: mech_from_str(&kv_str(&kv, "mech", "none")),
        fp: kv_u64(&kv, "fp", 0) != 0,
        user: unesc(&kv_str(&kv, "user", "user")),
        password: unesc(&kv_str(&kv, "password", "password")),
        realm: kv_str(&kv, "realm", "example.org"),
        srv_cookie: kv_u64(&kv, "cookie", 0) != 0,
        srv_anon: kv_u64(&kv, "anon", 0) != 0,
        srv_algs: kv_str(&kv, "algs", "none"),
        srv_legacy: kv_u64(&kv, "legacy", 0) != 0,
        srv_lenient: kv_u64(&kv, "lenient", 1) != 0,
        lat_ns: kv_u64(&kv, "lat", MS),
        n_app: kv_u64(&kv, "n_app", 8) as usize,
        n_inj: kv_u64(&kv, "n_inj", 8) as usize,
        retry_budget: kv_u64(&kv, "retries", 3) as u32,
        txid_seed: kv_u64(&kv, "txid_seed", 1),
        profile: kv_str(&kv, "profile", "replay"),
        storm: kv_u64(&kv, "storm", 0) != 0,
    }
}

const USERS: &[&str] = &["user", "alice", "bob-42", "u", "us:er", "caf\u{e9}", "\u{30de}\u{30c8}\u{30ea}"];
const PASSWORDS: &[&str] = &["password", "p", "pass:word", "0123456789abcdef0123456789abcdef0123456789abcdef0123456789abcdef", "0123456789abcdef0123456789abcdef0123456789abcdef0123456789abcdefX", "s3cr3t/+=", "TheMatrIX", "pa\u{df}wort", "nb\u{a0}sp\u{2003}pw and space", "caf-e\u{301}-\u{212b}ngstrom", "0123456789abcdef0123456789abcdef0123456789abcdef0123456789abcdef-long"];
// ASCII only: the library's quoted-string grammar rejects most non-ASCII text in REALM/NONCE (not a
// subject of the claimed properties), so non-ASCII realms would only exercise "undecodable challenge"
const REALMS: &[&str] = &["example.org", "r", "realm.test", "re:alm", "a-much-longer-realm.with.many.labels.example.net"];

fn gen_cfg(p: &Profile, rng: &mut Rng) -> Cfg {
    let default_timing = rng.chance(p.p_default_timing, 1000);
    let transport = if rng.chance(p.p_reliable, 1000) {
        let t = if default_timing { 39_500 * MS } else { rng.log_range(50 * MS, 60 * SEC) };
        Transport::Reliable { timeout_ns: t }
    } else if default_timing {
        Transport::Unreliable { rto_ns: 500 * MS, gran_ns: MS, rm: 16, rc: 7 }
    } else {
        let rto = match rng.below(20) {
            0 => rng.log_range(1_000, 20 * MS),    // very small (legal) retransmission timeouts
            1 => rng.log_range(3 * SEC, 60 * SEC), // very large ones
            _ => rng.log_range(p.rto_ms.0 * MS, p.rto_ms.1 * MS),
        };
        // keep a 1 us accuracy so that arithmetic is exercised off round numbers
        let rto = rto / 1000 * 1000;
        Transport::Unreliable {
            rto_ns: rto.max(1000),
            gran_ns: *rng.pick(&[1000, MS, MS, 10 * MS, 50 * MS, rto.max(1000), 2 * rto.max(1000)]),
            rm: if p.rm.1 >= 16 && rng.chance(1, 25) { rng.range(21, 32) as u32 } else { rng.range(p.rm.0, p.rm.1) as u32 },
            // now and then more transmissions than the default of seven (the intervals keep doubling); C06 is
            // quantified over Rc 1-10 and Rm 1-32
            rc: if p.rc.1 >= 7 && rng.chance(1, 25) { rng.range(9, 10) as u32 } else { rng.range(p.rc.0, p.rc.1) as u32 },
        }
    };
    let tot: u64 = p.mech_w.iter().sum();
    let mut x = rng.below(tot);
    let mut mi = 0;
    for (i, w) in p.mech_w.iter().enumerate() {
        if x < *w {
            mi = i;
            break;
        }
        x -= w;
    }
    let mech = match mi {
        0 => Mech::None,
        1 => Mech::ShortTerm(None),
        2 => Mech::ShortTerm(Some(Alg::Mi)),
        3 => Mech::ShortTerm(Some(Alg::Sha)),
        _ => Mech::LongTerm,
    };
    let mut c = Cfg {
        transport,
        max_tx: *rng.pick(p.max_tx),
        mech,
        fp: rng.chance(p.p_fp, 1000),
        user: rng.pick(USERS).to_string(),
        password: rng.pick(PASSWORDS).to_string(),
        realm: rng.pick(REALMS).to_string(),
        srv_cookie: rng.chance(1, 2),
        srv_anon: rng.chance(1, 3),
        srv_algs: rng.pick(&["none", "none", "md5", "sha", "md5sha", "shamd5", "unsupsha"]).to_string(),
        srv_legacy: rng.chance(1, 4),
        srv_lenient: rng.chance(p.p_lenient, 1000),
        // now and then a peer in the same process / a controller that stamps a whole batch of calls with one
        // instant: the response is handed over at the very instant the request was sent (round-trip time zero)
        lat_ns: if rng.chance(p.p_zero_lat, 1000) { 0 } else { rng.log_range(p.lat_ns.0, p.lat_ns.1) },
        n_app: {
            let n = rng.range(p.n_app.0, p.n_app.1) as usize;
            if rng.chance(p.p_long, 1000) {
                (n * 10).min(150)
            } else {
                n
            }
        },
        n_inj: rng.range(p.n_inj.0, p.n_inj.1) as usize,
        retry_budget: rng.range(0, 4) as u32,
        txid_seed: rng.next_u64() | 1,
        profile: p.name.to_string(),
        storm: false,
    };
    // swarm mood "storm": more requests than the default limit outstanding at once (back to back), most
    // replies failing authentication -- bookkeeping that is sized after the default limit shows here
    if rng.chance(p.p_storm, 1000) {
        c.storm = true;
        c.max_tx = *rng.pick(&[11usize, 12, 16, 24, 32]);
        c.n_app = rng.range(11, 36) as usize;
    }
    c
}

// ---------------------------------------------------------------------------------------------
// Application attribute lists
// ---------------------------------------------------------------------------------------------

/// Builds the library's `StunAttributes` from a comma separated token list.
pub fn build_app_attrs(spec: &str) -> StunAttributes {
    let mut a = StunAttributes::default();
    if spec.is_empty() || spec == "-" {
        return a;
    }
    for tok in spec.split(',') {
        if let Some(n) = tok.strip_prefix("sw") {
            let n: usize = n.parse().unwrap_or(3);
            if let Ok(s) = Software::new(software_text(n)) {
                a.add(s);
            }
        } else if let Some(n) = tok.strip_prefix("prio") {
            a.add(Priority::new(n.parse().unwrap_or(1)));
        } else if let Some(n) = tok.strip_prefix("life") {
            a.add(LifeTime::new(n.parse().unwrap_or(1)));
        } else {
            match tok {
                "user" => {
                    if let Ok(u) = UserName::new("app-user") {
                        a.add(u)
                    }
                }
                "realm" => {
                    if let Ok(u) = Realm::new("app-realm") {
                        a.add(u)
                    }
                }
                "nonce" => {
                    if let Ok(u) = Nonce::new("app-nonce") {
                        a.add(u)
                    }
                }
                "uhash" => {
                    if let Ok(u) = UserHash::new("app-user", "app-realm") {
                        a.add(u)
                    }
                }
                "palg" => a.add(PasswordAlgorithm::new(Algorithm::from(AlgorithmId::MD5))),
                "palgs" => {
                    let v = vec![PasswordAlgorithm::new(Algorithm::from(AlgorithmId::MD5))];
                    a.add(PasswordAlgorithms::from(v));
                }
                "mi" => {
                    if let Ok(k) = HMACKey::new_short_term("app-key") {
                        a.add(MessageIntegrity::new(k))
                    }
                }
                "mi256" => {
                    if let Ok(k) = HMACKey::new_short_term("app-key") {
                        a.add(MessageIntegritySha256::new(k))
                    }
                }
                "fp" => a.add(Fingerprint::default()),
                // attributes as an application would hold them after decoding a received message (not encodable
                // as they are): the client must replace them when it owns that attribute
                "fpd" => a.add(Fingerprint::from([0x12u8, 0x34, 0x56, 0x78])),
                "mid" => a.add(MessageIntegrity::from([0x5au8; 20])),
                "mi256d" => a.add(MessageIntegritySha256::from([0xa5u8; 32])),
                _ => {}
            }
        }
    }
    a
}

pub fn software_text(n: usize) -> String {
    let c = (b'a' + (n % 26) as u8) as char;
    std::iter::repeat(c).take(n).collect()
}

/// What the independent oracle expects the application's token to look like on the wire:
/// (attribute type, value bytes or None when the value is computed by the encoder).
pub fn app_token_wire(tok: &str) -> Option<(u16, Option<Vec<u8>>)> {
    if let Some(n) = tok.strip_prefix("sw") {
        let n: usize = n.parse().unwrap_or(3);
        return Some((wire::A_SOFTWARE, Some(software_text(n).into_bytes())));
    }
    if let Some(n) = tok.strip_prefix("prio") {
        let n: u32 = n.parse().unwrap_or(1);
        return Some((wire::A_PRIORITY, Some(n.to_be_bytes().to_vec())));
    }
    if let Some(n) = tok.strip_prefix("life") {
        let n: u32 = n.parse().unwrap_or(1);
        return Some((0x000D, Some(n.to_be_bytes().to_vec())));
    }
    match tok {
        "user" => Some((wire::A_USERNAME, Some(b"app-user".to_vec()))),
        "realm" => Some((wire::A_REALM, Some(b"app-realm".to_vec()))),
        "nonce" => Some((wire::A_NONCE, Some(b"app-nonce".to_vec()))),
        "uhash" => Some((wire::A_USERHASH, Some(wire::user_hash("app-user", "app-realm")))),
        "palg" => Some((wire::A_PASSWORD_ALGORITHM, Some(vec![0, 1, 0, 0]))),
        "palgs" => Some((wire::A_PASSWORD_ALGORITHMS, Some(vec![0, 1, 0, 0]))),
        "mi" => Some((wire::A_MI, None)),
        "mi256" => Some((wire::A_MI256, None)),
        "fp" | "fpd" => Some((wire::A_FINGERPRINT, None)),
        "mid" => Some((wire::A_MI, None)),
        "mi256d" => Some((wire::A_MI256, None)),
        _ => None,
    }
}

fn gen_app_attrs(p: &Profile, rng: &mut Rng) -> String {
    if !rng.chance(p.p_app_attrs, 1000) {
        return "-".to_string();
    }
    let n = rng.range(1, 5);
    let mut toks: Vec<String> = Vec::new();
    for _ in 0..n {
        let collide = rng.chance(p.p_app_collide, 1000);
        if collide {
            toks.push(
                rng.pick(&["user", "realm", "nonce", "uhash", "palg", "palgs", "mi", "mi256", "fp", "fpd", "mid", "mi256d"])
                    .to_string(),
            );
        } else {
            match rng.below(4) {
                0 | 1 => toks.push(format!("sw{}", rng.pick(&[0u64, 1, 2, 3, 4, 5, 7, 8, 13, 31, 64, 127]))),
                2 => toks.push(format!("prio{}", rng.below(1000))),
                _ => toks.push(format!("life{}", rng.below(4000))),
            }
        }
    }
    toks.join(",")
}

// ---------------------------------------------------------------------------------------------
// Corruption faults (applied to packets in flight)
// ---------------------------------------------------------------------------------------------

fn fix_header_len(b: &mut [u8]) {
    if b.len() >= 20 {
        let l = (b.len() - 20) as u16;
        b[2..4].copy_from_slice(&l.to_be_bytes());
    }
}

/// Applies one corruption described by `kv`; returns the fault-kind label if bytes changed.
pub fn apply_corruption(bytes: &mut Vec<u8>, kv: &Kv, key: &[u8]) -> Option<String> {
    let kind = kv_get(kv, "corrupt")?;
    let before = bytes.clone();
    let pos = kv_u64(kv, "pos", 0) as usize;
    let val = kv_u64(kv, "val", 0) as u8;
    let n = kv_u64(kv, "n", 1) as usize;
    let d = kv_i64(kv, "d", 1);
    let idx = kv_u64(kv, "idx", 0) as usize;
    match kind {
        "bit" => {
            if !bytes.is_empty() {
                let p = pos % (bytes.len() * 8);
                bytes[p / 8] ^= 1 << (p % 8);
            }
        }
        "byte" => {
            if !bytes.is_empty() {
                let p = pos % bytes.len();
                // always a change (if the byte already has that value, its complement): whether the fault bites
                // must not depend on id-dependent bytes (transaction id, MAC, CRC)
                bytes[p] = if bytes[p] == val { !val } else { val };
            }
        }
        "trunc" => {
            let keep = n.min(bytes.len());
            bytes.truncate(keep);
        }
        "extend" => {
            for i in 0..n.min(65000) {
                bytes.push(val.wrapping_add(i as u8));
            }
        }
        "hdrlen" => {
            if bytes.len() >= 4 {
                let l = u16::from_be_bytes([bytes[2], bytes[3]]) as i64;
                let nl = (l + d).clamp(0, 65535) as u16;
                bytes[2..4].copy_from_slice(&nl.to_be_bytes());
            }
        }
        "attrlen" => {
            if let Ok(p) = wire::parse(bytes) {
                if !p.attrs.is_empty() {
                    let a = &p.attrs[idx % p.attrs.len()];
                    let l = a.value.len() as i64;
                    let nl = (l + d).clamp(0, 65535) as u16;
                    bytes[a.off + 2..a.off + 4].copy_from_slice(&nl.to_be_bytes());
                }
            }
        }
        "hdrlen-set" => {
            if bytes.len() >= 4 {
                let nl = kv_u64(kv, "v", 0).min(65535) as u16;
                bytes[2..4].copy_from_slice(&nl.to_be_bytes());
            }
        }
        "attrlen-set" => {
            if let Ok(p) = wire::parse(bytes) {
                if !p.attrs.is_empty() {
                    let a = &p.attrs[idx % p.attrs.len()];
                    let nl = kv_u64(kv, "v", 0).min(65535) as u16;
                    bytes[a.off + 2..a.off + 4].copy_from_slice(&nl.to_be_bytes());
                }
            }
        }
        "nested-set" => {
            // k-th inner length field of the idx-th attribute that carries nested (algorithm, length, parameters) items
            if let Ok(p) = wire::parse(bytes) {
                let nests: Vec<&wire::RawAttr> = p.attrs.iter().filter(|a| a.typ == wire::A_PASSWORD_ALGORITHMS || a.typ == wire::A_PASSWORD_ALGORITHM).collect();
                if !nests.is_empty() {
                    let a = nests[idx % nests.len()];
                    let k = kv_u64(kv, "k", 0) as usize;
                    // walk the items
                    let mut pos = 0usize;
                    let mut i = 0usize;
                    while pos + 4 <= a.value.len() {
                        let l = u16::from_be_bytes([a.value[pos + 2], a.value[pos + 3]]) as usize;
                        if i == k {
                            let o = a.off + 4 + pos + 2;
                            let nl = kv_u64(kv, "v", 0).min(65535) as u16;
                            bytes[o..o + 2].copy_from_slice(&nl.to_be_bytes());
                            break;
                        }
                        pos += 4 + wire::pad4(l);
                        i += 1;
                    }
                }
            }
        }
        "nested" => {
            if let Ok(p) = wire::parse(bytes) {
                if let Some(a) = p.attrs.iter().find(|a| {
                    (a.typ == wire::A_PASSWORD_ALGORITHMS || a.typ == wire::A_PASSWORD_ALGORITHM) && a.value.len() >= 4
                }) {
                    let o = a.off + 4 + 2;
                    let l = u16::from_be_bytes([bytes[o], bytes[o + 1]]) as i64;
                    let nl = (l + d).clamp(0, 65535) as u16;
                    bytes[o..o + 2].copy_from_slice(&nl.to_be_bytes());
                }
            }
        }
        "utf8" => {
            // insert a multi-byte / quoting sequence inside the value of a string attribute
            if let Ok(p) = wire::parse(bytes) {
                let strs: Vec<&wire::RawAttr> = p
                    .attrs
                    .iter()
                    .filter(|a| {
                        matches!(a.typ, wire::A_NONCE | wire::A_REALM | wire::A_SOFTWARE | wire::A_USERNAME | wire::A_ERROR_CODE)
                    })
                    .collect();
                if !strs.is_empty() {
                    let a = strs[idx % strs.len()];
                    let seqs: [&[u8]; 6] = [&[0xc3, 0xa9], &[0xe2, 0x82, 0xac], &[b'"'], &[b'\\'], &[0xf0, 0x9f, 0x98, 0x80], &[0xc3]];
                    // val >= 6: a pair of characters U+00C0..U+00FD, U+0080..U+00BF (text that looks like UTF-8 encoded
                    // twice; the only non-ASCII shape the library's quoted-string grammar lets through)
                    let val_full = kv_u64(kv, "val", 0) as usize;
                    let pair: Vec<u8>;
                    let seq: &[u8] = if val_full >= 6 {
                        let lead = [0xC2u32, 0xC3, 0xE2, 0xFD][((val_full - 6) / 64) % 4];
                        let trail = 0x80u32 + ((val_full - 6) % 64) as u32;
                        let mut st = String::new();
                        st.push(char::from_u32(lead).unwrap());
                        st.push(char::from_u32(trail).unwrap());
                        pair = st.into_bytes();
                        &pair
                    } else {
                        seqs[val_full % seqs.len()]
                    };
                    let mut v = a.value.clone();
                    let lo = if a.typ == wire::A_ERROR_CODE { 4.min(v.len()) } else { 0 };
                    let at = lo + if v.len() > lo { if pos >= 1000 { v.len() - lo } else { pos % (v.len() - lo + 1) } } else { 0 };
                    v.splice(at..at, seq.iter().copied());
                    let mut out = bytes[..a.off].to_vec();
                    out.extend_from_slice(&a.typ.to_be_bytes());
                    out.extend_from_slice(&(v.len() as u16).to_be_bytes());
                    out.extend_from_slice(&v);
                    while out.len() % 4 != 0 {
                        out.push(0);
                    }
                    out.extend_from_slice(&bytes[a.end().min(bytes.len())..p.total()]);
                    fix_header_len(&mut out);
                    *bytes = out;
                }
            }
        }
        "splice" => {
            if let Ok(p) = wire::parse(bytes) {
                let mut b = wire::Builder { buf: bytes[..p.total()].to_vec(), pad: 0 };
                splice_suffix(&mut b, kv_get(kv, "spec").unwrap_or("a"), key);
                *bytes = b.finish();
            }
        }
        _ => {}
    }
    if *bytes != before {
        Some(format!("corrupt:{}", kind))
    } else {
        None
    }
}

fn gen_corruption(rng: &mut Rng, len: usize, splice: bool) -> String {
    if splice {
        let n = rng.range(1, 4);
        let mut s = String::new();
        for _ in 0..n {
            s.push(*rng.pick(&['a', 'a', 'u', 'm', 'M', 's', 'S', 'f', 'F', 'a', 'u', 'm', 'M', 's', 'S', 'f', 'F', 't', 'r']));
        }
        return format!("corrupt=splice spec={}", s);
    }
    match rng.below(9) {
        0 | 1 => format!("corrupt=bit pos={}", rng.below((len.max(1) * 8) as u64)),
        2 => format!("corrupt=byte pos={} val={}", rng.below(len.max(1) as u64), *rng.pick(&[0u64, 255, 1, 0x80, 0x21, 0x15])),
        3 => format!("corrupt=trunc n={}", rng.below(len.max(1) as u64)),
        4 => format!("corrupt=extend n={} val={}", if rng.chance(1, 10) { rng.range(64, 60000) } else { rng.range(1, 64) }, rng.below(256)),
        5 => format!("corrupt=hdrlen d={}", *rng.pick(&[-8i64, -4, -1, 1, 3, 4, 8, 400])),
        6 => {
            if rng.chance(1, 2) {
                format!("corrupt=attrlen idx={} d={}", rng.below(6), *rng.pick(&[-4i64, -1, 1, 2, 4, 60000]))
            } else {
                // any length from zero to a little beyond the original (the original is not known here: small absolute values)
                format!("corrupt=attrlen-set idx={} v={}", rng.below(6), rng.below(40))
            }
        }
        7 => {
            if rng.chance(1, 2) {
                format!("corrupt=nested d={}", *rng.pick(&[-1i64, 1, 3, 4, 9, 65000]))
            } else {
                format!("corrupt=nested-set idx={} k={} v={}", rng.below(2), rng.below(3), if rng.chance(1, 4) { 0xFFF0 + rng.below(16) } else { rng.below(12) })
            }
        }
        _ => format!("corrupt=utf8 idx={} pos={} val={}", rng.below(4), *rng.pick(&[0u64, 1, 5, 9, 10, 11, 12, 13, 19, 1000]), if rng.chance(1, 2) { rng.below(6) } else { 6 + rng.below(256) }),
    }
}

// ---------------------------------------------------------------------------------------------
// Run options / output
// ---------------------------------------------------------------------------------------------

#[derive(Clone, Debug, Default)]
pub struct RunOpts {
    /// deliveries to suppress (twin runs): turned into drops
    pub suppress: BTreeSet<Origin>,
    /// stop the main phase after this many steps, then run the epilogue
    pub stop_after: Option<usize>,
    /// epilogue probes
    pub probe_late_responses: bool,
    pub probe_capacity: bool,
    /// skip the quiescence phase (and probes) altogether
    pub no_epilogue: bool,
    /// application actions to skip (twin runs for refused requests)
    pub skip_apps: BTreeSet<usize>,
    /// ordinals of send calls (requests and indications, in call order) to skip without calling the client
    pub skip_sends: BTreeSet<usize>,
    /// start the probe phase no earlier than this instant (twin runs)
    pub probe_start_at: Option<u64>,
    /// bounded liveness: once faults have stopped, a fresh request must be delivered within 3 exchanges
    pub probe_fresh_request: bool,
    /// systematic sweeps: apply this corruption to the bytes of exactly this delivery
    pub override_delivery: Option<(Origin, String)>,
}

#[derive(Clone, Debug, PartialEq, Eq, PartialOrd, Ord)]
enum EvKind {
    App(usize),
    Inj(usize),
    Resend { app: usize, left: u32 },
    C2s { ident: String, bytes: Vec<u8> },
    S2c { ident: String, copy: usize, bytes: Vec<u8>, fault: String },
    Timer { gen: u64, n: usize },
    EndOfFaults,
}

#[derive(Clone, Debug, PartialEq, Eq, PartialOrd, Ord)]
struct QEv {
    at: u64,
    /// tie-break among events of the same instant: controller/application events first (in insertion order),
    /// then network deliveries ordered by the stable name of the packet -- not by the order in which the
    /// client happened to emit them, which no property fixes
    class: u8,
    name: String,
    seq: u64,
    kind: EvKind,
}

#[derive(Clone, Debug)]
struct AppAction {
    t: u64,
    ind: bool,
    method: u16,
    attrs: String,
    buf: usize,
    fill: u8,
}

struct World<'a> {
    cfg: Cfg,
    profile: Profile,
    src: &'a mut Source,
    opts: RunOpts,
    epoch: Instant,
    now: u64,
    seq: u64,
    heap: BinaryHeap<Reverse<QEv>>,
    client: Option<StunClient>,
    gen: u32,
    server: RefServer,
    timer_gen: u64,
    timer_armed: Option<u64>,
    n_timer: usize,
    n_c2s: usize,
    n_s2c: usize,
    n_srv: usize,
    srv_arrivals: std::collections::BTreeMap<String, usize>,
    n_retry: usize,
    n_send: usize,
    probe_stage: u8,
    s2c_last_at: u64,
    c2s_last_at: u64,
    stall_until: u64,
    phase: Phase,
    ledger: Ledger,
    apps: Vec<Option<AppAction>>,
    /// every packet ever sent towards the client (post-fault bytes), for replay injections
    sent_s2c: Vec<Vec<u8>>,
    /// every packet the client emitted (for reflection injections)
    sent_c2s: std::collections::BTreeMap<(usize, String), Vec<u8>>,
    swarm_off: [bool; 6],
    perfect: bool,
    s2c_hostile: bool,
}

const SW_NET: usize = 0;
const SW_CORRUPT: usize = 1;
const SW_TIMER: usize = 2;
const SW_SRV: usize = 3;
const SW_INJ: usize = 4;
const SW_APP: usize = 5;

pub fn build_client(cfg: &Cfg) -> Result<StunClient, StunAgentError> {
    let rel = match cfg.transport {
        Transport::Reliable { timeout_ns } => TransportReliability::Reliable(Duration::from_nanos(timeout_ns)),
        Transport::Unreliable { rto_ns, gran_ns, rm, rc } => TransportReliability::Unreliable(RttConfig {
            rto: Duration::from_nanos(rto_ns),
            granularity: Duration::from_nanos(gran_ns),
            rm,
            rc,
        }),
    };
    let mut b = StunClienteBuilder::new(rel).with_max_transactions(cfg.max_tx);
    match &cfg.mech {
        Mech::None => {}
        Mech::ShortTerm(a) => {
            let i = a.map(|a| match a {
                Alg::Mi => Integrity::MessageIntegrity,
                Alg::Sha => Integrity::MessageIntegritySha256,
            });
            b = b.with_mechanism(cfg.user.clone(), cfg.password.clone(), CredentialMechanism::ShortTerm(i));
        }
        Mech::LongTerm => {
            b = b.with_mechanism(cfg.user.clone(), cfg.password.clone(), CredentialMechanism::LongTerm);
        }
    }
    if cfg.fp {
        b = b.with_fingerprint();
    }
    b.build()
}

fn panic_msg(e: Box<dyn std::any::Any + Send>) -> String {
    if let Some(s) = e.downcast_ref::<&str>() {
        s.to_string()
    } else if let Some(s) = e.downcast_ref::<String>() {
        s.clone()
    } else {
        "panic".to_string()
    }
}

thread_local! {
    pub static LAST_PANIC_LOC: std::cell::RefCell<String> = const { std::cell::RefCell::new(String::new()) };
}

/// Installs a panic hook that records the location (file:line) instead of printing.
pub fn install_quiet_panic_hook() {
    std::panic::set_hook(Box::new(|info| {
        let loc = info
            .location()
            .map(|l| {
                let f = l.file();
                let f = f.rsplit('/').next().unwrap_or(f);
                format!("{}:{}", f, l.line())
            })
            .unwrap_or_default();
        let own = info.location().map(|l| l.file().starts_with("src/")).unwrap_or(false);
        if own {
            eprintln!("HARNESS PANIC: {}", info);
        }
        LAST_PANIC_LOC.with(|c| *c.borrow_mut() = loc);
    }));
}

pub fn take_panic_loc() -> String {
    LAST_PANIC_LOC.with(|c| std::mem::take(&mut *c.borrow_mut()))
}

fn conv_err(e: &StunAgentError) -> ErrKind {
    match e {
        StunAgentError::Discarded => ErrKind::Discarded,
        StunAgentError::FingerPrintValidationFailed => ErrKind::FingerPrintValidationFailed,
        StunAgentError::Ignored => ErrKind::Ignored,
        StunAgentError::MaxOutstandingRequestsReached => ErrKind::MaxOutstanding,
        StunAgentError::StunCheckFailed => ErrKind::StunCheckFailed,
        StunAgentError::InternalError(s) => ErrKind::Internal(s.clone()),
    }
}

fn conv_why(w: &StunTransactionError) -> Why {
    match w {
        StunTransactionError::DoNotRetry => Why::DoNotRetry,
        StunTransactionError::InvalidFingerprint => Why::InvalidFingerprint,
        StunTransactionError::NotFound => Why::NotFound,
        StunTransactionError::ProtectionViolated => Why::ProtectionViolated,
        StunTransactionError::TimedOut => Why::TimedOut,
    }
}

fn id_of(t: &stun_rs::TransactionId) -> Id {
    *t.as_bytes()
}

impl<'a> World<'a> {
    fn instant(&self, ns: u64) -> Instant {
        self.epoch + Duration::from_nanos(ns)
    }

    fn ns_of(&self, i: Instant) -> u64 {
        i.saturating_duration_since(self.epoch).as_nanos() as u64
    }

    fn push(&mut self, at: u64, kind: EvKind) {
        self.seq += 1;
        let (class, name) = match &kind {
            EvKind::C2s { ident, .. } => (1u8, ident.clone()),
            EvKind::S2c { ident, copy, .. } => (2u8, format!("{}.c{}", ident, copy)),
            _ => (0u8, String::new()),
        };
        self.heap.push(Reverse(QEv { at, class, name, seq: self.seq, kind }));
    }

    fn faults_on(&self) -> bool {
        self.phase == Phase::Main && !self.perfect
    }

    fn snapshot(&self) -> Snap {
        let Some(c) = &self.client else {
            return Snap::default();
        };
        let s = c.verif_snapshot();
        Snap {
            outstanding: s.outstanding.iter().map(|(id, k)| (id_of(id), *k)).collect(),
            timeouts: s
                .timeouts
                .iter()
                .map(|(id, i, d)| (id_of(id), self.ns_of(*i), d.as_nanos() as u64))
                .collect(),
            rto_ns: s.rto.map(|d| d.as_nanos() as u64),
            srtt_ns: s.srtt.map(|d| d.as_nanos() as u64),
            rttvar_ns: s.rttvar.map(|d| d.as_nanos() as u64),
            last_request_ns: s.last_request.map(|i| self.ns_of(i)),
            cred: s.credentials,
            violated: s.violated.iter().map(id_of).collect(),
        }
    }

    /// Pulls events after a call, records the step, routes packets and timers.
    fn finish_step(&mut self, call: Call, result: CallResult) {
        let mut evs: Vec<Ev> = Vec::new();
        let mut panicked = matches!(result, CallResult::Panic(_));
        if !panicked {
            if let Some(c) = self.client.as_mut() {
                match catch_unwind(AssertUnwindSafe(|| c.events())) {
                    Ok(list) => {
                        for e in list {
                            evs.push(match e {
                                StunClientEvent::OutputPacket(p) => Ev::Output(p.as_ref().to_vec()),
                                StunClientEvent::RestransmissionTimeOut((id, d)) => {
                                    Ev::Timer(id_of(&id), d.as_nanos() as u64)
                                }
                                StunClientEvent::Retry(id) => Ev::Retry(id_of(&id)),
                                StunClientEvent::TransactionFailed((id, why)) => Ev::Failed(id_of(&id), conv_why(&why)),
                                StunClientEvent::StunMessageReceived(m) => Ev::Received(MsgSummary {
                                    class: match m.class() {
                                        MessageClass::Request => 0,
                                        MessageClass::Indication => 1,
                                        MessageClass::SuccessResponse => 2,
                                        MessageClass::ErrorResponse => 3,
                                    },
                                    method: m.method().as_u16(),
                                    id: id_of(m.transaction_id()),
                                    attr_types: m.attributes().iter().map(|a| a.attribute_type().as_u16()).collect(),
                                }),
                            });
                        }
                    }
                    Err(_) => panicked = true,
                }
            }
        }
        let result = if panicked && !matches!(result, CallResult::Panic(_)) {
            CallResult::Panic(format!("events() panicked at {}", take_panic_loc()))
        } else {
            result
        };
        let snap = if panicked { Snap::default() } else { self.snapshot() };
        let idx = self.ledger.steps.len();
        // ledger bookkeeping: transactions
        if let (Call::SendRequest { app, method, .. }, CallResult::OkId(id)) = (&call, &result) {
            let rto = snap.rto_ns.unwrap_or(match self.cfg.transport {
                Transport::Reliable { timeout_ns } => timeout_ns,
                Transport::Unreliable { rto_ns, .. } => rto_ns,
            });
            let k = self.ledger.txs.len();
            self.ledger.txs.push(Tx {
                k,
                id: *id,
                app: *app,
                method: *method,
                step_sent: idx,
                t0: self.now,
                rto_ns: rto,
                gen: self.gen,
                transmissions: vec![],
                finals: vec![],
                probe: self.phase == Phase::Probe,
            });
            self.ledger.stats.tx_started += 1;
        }
        for e in &evs {
            match e {
                Ev::Output(b) => {
                    if b.len() >= 20 {
                        let mut id = [0u8; 12];
                        id.copy_from_slice(&b[8..20]);
                        let gen = self.gen;
                        let now = self.now;
                        if let Some(tx) = self.ledger.txs.iter_mut().rev().find(|t| t.id == id && t.gen == gen) {
                            tx.transmissions.push((idx, now, b.clone()));
                        }
                    }
                }
                Ev::Retry(id) | Ev::Failed(id, _) => {
                    let o = match e {
                        Ev::Retry(_) => Outcome::Retry,
                        Ev::Failed(_, w) => Outcome::Failed(w.clone()),
                        _ => unreachable!(),
                    };
                    let gen = self.gen;
                    let now = self.now;
                    if let Some(tx) = self.ledger.txs.iter_mut().rev().find(|t| &t.id == id && t.gen == gen) {
                        if tx.finals.is_empty() {
                            self.ledger.stats.tx_completed += 1;
                        }
                        tx.finals.push((idx, now, o));
                    }
                }
                Ev::Received(m) if m.class >= 2 => {
                    let gen = self.gen;
                    let now = self.now;
                    if let Some(tx) = self.ledger.txs.iter_mut().rev().find(|t| t.id == m.id && t.gen == gen) {
                        if tx.finals.is_empty() {
                            self.ledger.stats.tx_completed += 1;
                        }
                        tx.finals.push((idx, now, Outcome::Delivered(m.class)));
                    }
                }
                _ => {}
            }
        }
        self.ledger.steps.push(Step {
            idx,
            t: self.now,
            call: call.clone(),
            result,
            events: evs.clone(),
            snap,
            phase: self.phase,
            gen: self.gen,
        });
        self.ledger.stats.steps += 1;
        if panicked {
            return;
        }
        // controller: route packets, arm timers, react to Retry
        for e in &evs {
            match e {
                Ev::Output(b) => self.net_c2s(b.clone()),
                Ev::Timer(_, d) => self.arm_timer(*d),
                Ev::Retry(id) => self.on_retry(*id),
                _ => {}
            }
        }
    }

    fn arm_timer(&mut self, d: u64) {
        let n = self.n_timer;
        self.n_timer += 1;
        let mut fire = self.now.saturating_add(d);
        if self.faults_on() {
            let p = self.profile.clone();
            let off = self.swarm_off[SW_TIMER];
            let dd = d;
            let unit = self.cfg.rc_rm_rto().2.max(1);
            let v = self.src.decide(&format!("timer#{}", n), |rng| {
                if off {
                    return None;
                }
                let x = rng.below(1000);
                if rng.chance(p.p_align, 2000) {
                    // late by a whole number of RTOs (+-1 ns): the call lands exactly on a later slot or on the deadline
                    let m = *rng.pick(&[1u64, 2, 3, 4, 6, 8, 12, 16, 24]);
                    Some(format!("late={}", (unit * m + rng.range(0, 2)).saturating_sub(1).max(1)))
                } else if x < p.p_timer_very_late {
                    Some(format!("late={}", rng.log_range(SEC, 120 * SEC)))
                } else if x < p.p_timer_very_late + p.p_timer_late {
                    Some(format!("late={}", rng.log_range(1000, 2 * SEC)))
                } else if x < p.p_timer_very_late + p.p_timer_late + p.p_timer_early && dd > 1 {
                    Some(format!("early={}", rng.range(1, dd)))
                } else {
                    None
                }
            });
            if let Some(v) = v {
                let kv = parse_kv(&v);
                let late = kv_u64(&kv, "late", 0);
                let early = kv_u64(&kv, "early", 0);
                if late > 0 {
                    fire = fire.saturating_add(late);
                    self.ledger.stats.fault(if late >= SEC { "timer_very_late" } else { "timer_late" });
                }
                if early > 0 {
                    fire = self.now.saturating_add(d.saturating_sub(early));
                    self.ledger.stats.fault("timer_early");
                }
            }
        }
        self.timer_gen += 1;
        self.timer_armed = Some(fire);
        let gen = self.timer_gen;
        self.push(fire, EvKind::Timer { gen, n });
    }

    fn on_retry(&mut self, id: Id) {
        let gen = self.gen;
        let Some(tx) = self.ledger.txs.iter().rev().find(|t| t.id == id && t.gen == gen) else {
            return;
        };
        let fresh = Some(tx.app) == self.ledger.fresh_probe_app;
        if tx.probe && !fresh {
            return;
        }
        let app = tx.app;
        // retries left for this application request: count earlier transactions of the same app
        let used = self.ledger.txs.iter().filter(|t| t.app == app).count() as u32 - 1;
        let budget = if fresh { 2 } else { self.cfg.retry_budget };
        if used >= budget {
            return;
        }
        let n = self.n_retry;
        self.n_retry += 1;
        let mut delay = 0u64;
        let mut ignore = false;
        if self.faults_on() {
            let p = self.profile.clone();
            let off = self.swarm_off[SW_APP];
            let v = self.src.decide(&format!("retry#{}", n), |rng| {
                if off {
                    return None;
                }
                let x = rng.below(1000);
                if x < p.p_retry_ignore {
                    Some("ignore".to_string())
                } else if x < p.p_retry_ignore + p.p_retry_delay {
                    Some(format!("delay={}", rng.log_range(1000, 5 * SEC)))
                } else {
                    None
                }
            });
            if let Some(v) = v {
                let kv = parse_kv(&v);
                ignore = kv_has(&kv, "ignore");
                delay = kv_u64(&kv, "delay", 0);
                self.ledger.stats.fault(if ignore { "retry_ignored" } else { "retry_delayed" });
            }
        }
        if !ignore {
            let at = self.now + delay;
            self.push(at, EvKind::Resend { app, left: budget - used });
        }
    }

    // ----- network ---------------------------------------------------------------------------

    /// Content-stable name of a packet the client emitted: `t<k>.<j>` = j-th transmission of transaction k
    /// (creation order), `i<n>` = n-th indication. Decisions are keyed by it, so that a plan means the same
    /// thing even if the client emits the packets of one call in another order.
    fn c2s_ident(&mut self, bytes: &[u8]) -> String {
        if bytes.len() >= 20 {
            let gen = self.gen;
            if let Some(tx) = self.ledger.txs.iter().rev().find(|t| t.id[..] == bytes[8..20] && t.gen == gen) {
                return format!("t{}.{}", tx.k, tx.transmissions.len());
            }
        }
        let n = self.n_c2s;
        self.n_c2s += 1;
        format!("i{}", n)
    }

    fn net_c2s(&mut self, bytes: Vec<u8>) {
        let n = self.c2s_ident(&bytes);
        // keyed by (step, stable name): independent of the order in which one call emitted its packets
        self.sent_c2s.insert((self.ledger.steps.len(), n.clone()), bytes.clone());
        let reliable = self.cfg.is_reliable();
        let mut delay = self.cfg.lat_ns;
        let mut drop = false;
        let mut dup = 0u64;
        if self.faults_on() {
            let p = self.profile.clone();
            let off = self.swarm_off[SW_NET];
            let v = self.src.decide(&format!("c2s#{}", n), |rng| {
                if off {
                    return None;
                }
                let x = rng.below(1000);
                if !reliable && x < p.p_drop {
                    Some("drop".to_string())
                } else if !reliable && x < p.p_drop + p.p_dup {
                    Some(format!("dup={}", rng.range(1, 2)))
                } else if x < p.p_drop + p.p_dup + p.p_delay {
                    Some(format!("delay={}", rng.log_range(1000, 3 * SEC)))
                } else {
                    None
                }
            });
            if let Some(v) = v {
                let kv = parse_kv(&v);
                drop = kv_has(&kv, "drop") && !reliable;
                dup = if reliable { 0 } else { kv_u64(&kv, "dup", 0) };
                delay += kv_u64(&kv, "delay", 0);
                if drop {
                    self.ledger.stats.fault("c2s_drop");
                }
                if dup > 0 {
                    self.ledger.stats.fault("c2s_dup");
                }
                if kv_has(&kv, "delay") {
                    self.ledger.stats.fault("c2s_delay");
                }
            }
        }
        if drop {
            return;
        }
        let mut at = self.now + delay;
        if reliable {
            at = at.max(self.c2s_last_at);
            self.c2s_last_at = at;
        }
        for c in 0..=dup {
            self.push(at + c * 1000, EvKind::C2s { ident: n.clone(), bytes: bytes.clone() });
        }
    }

    /// Key an on-path splice fault uses to compute "right" MACs.
    fn session_key(&self) -> Vec<u8> {
        match self.cfg.mech {
            Mech::ShortTerm(_) => self.server.short_term_key(),
            Mech::LongTerm => {
                let alg = match crate::server::algs_list(&self.server.ses_algs) {
                    Some(l) if l.iter().any(|(a, _)| *a == wire::ALG_SHA256) => wire::ALG_SHA256,
                    _ => wire::ALG_MD5,
                };
                wire::long_term_key(alg, &self.cfg.user, &self.server.ses_realm, &self.cfg.pw())
            }
            Mech::None => b"no-key".to_vec(),
        }
    }

    fn net_s2c(&mut self, mut bytes: Vec<u8>, base_delay: u64, n: String) {
        let reliable = self.cfg.is_reliable();
        let mut delay = self.cfg.lat_ns + base_delay;
        let mut drop = false;
        let mut dup = 0u64;
        let mut gap = 1000u64;
        let mut fault = if self.s2c_hostile { "srv-hostile".to_string() } else { String::new() };
        if self.faults_on() {
            let p = self.profile.clone();
            let off_net = self.swarm_off[SW_NET];
            let off_cor = self.swarm_off[SW_CORRUPT];
            let len = bytes.len();
            let deadline_hint = self.deadline_hint();
            // instants at which the answered transaction retransmits or fails (for boundary-aligned arrivals)
            let mut boundaries: Vec<u64> = vec![];
            if bytes.len() >= 20 {
                let gen = self.gen;
                if let Some(tx) = self.ledger.txs.iter().rev().find(|t| t.id[..] == bytes[8..20] && t.gen == gen) {
                    let (rc, rm, _) = self.cfg.rc_rm_rto();
                    let sch = crate::oracle_tx::schedule(tx.t0, tx.rto_ns, rc, rm);
                    boundaries = sch.slots.clone();
                    boundaries.push(sch.deadline);
                }
            }
            let earliest = self.now + delay;
            let v = self.src.decide(&format!("s2c#{}", n), |rng| {
                let mut parts: Vec<String> = vec![];
                if !off_net {
                    let x = rng.below(1000);
                    let later: Vec<u64> = boundaries.iter().copied().filter(|b| *b > earliest + 1).collect();
                    if !later.is_empty() && rng.chance(p.p_align, 1000) {
                        // arrive exactly at (or one nanosecond around) a retransmission slot or the deadline
                        let b = *rng.pick(&later);
                        parts.push(format!("delay={}", (b - earliest + rng.range(0, 2)).saturating_sub(1).max(1)));
                    } else if !reliable && x < p.p_drop {
                        parts.push("drop".to_string());
                    } else if !reliable && x < p.p_drop + p.p_dup {
                        parts.push(format!("dup={} gap={}", rng.range(1, 3), rng.log_range(1000, deadline_hint.max(2000))));
                    } else if x < p.p_drop + p.p_dup + p.p_delay {
                        // up to a few seconds, or (large configured RTOs) up to the order of the request's lifetime
                        parts.push(format!("delay={}", rng.log_range(1000, (3 * SEC).max(deadline_hint / 2))));
                    } else if x < p.p_drop + p.p_dup + p.p_delay + p.p_delay_huge {
                        // beyond the final time-out
                        parts.push(format!("delay={}", deadline_hint + rng.log_range(1000, 10 * SEC)));
                    }
                }
                if !off_cor {
                    let x = rng.below(1000);
                    if x < p.p_corrupt {
                        parts.push(gen_corruption(rng, len, false));
                    } else if x < p.p_corrupt + p.p_splice {
                        parts.push(gen_corruption(rng, len, true));
                    }
                }
                if parts.is_empty() {
                    None
                } else {
                    Some(parts.join(" "))
                }
            });
            if let Some(v) = v {
                let kv = parse_kv(&v);
                drop = kv_has(&kv, "drop") && !reliable;
                dup = if reliable { 0 } else { kv_u64(&kv, "dup", 0) };
                gap = kv_u64(&kv, "gap", 1000);
                delay += kv_u64(&kv, "delay", 0);
                if drop {
                    self.ledger.stats.fault("s2c_drop");
                }
                if dup > 0 {
                    self.ledger.stats.fault("s2c_dup");
                }
                if kv_has(&kv, "delay") {
                    self.ledger.stats.fault(if kv_u64(&kv, "delay", 0) >= deadline_hint { "s2c_delay_past_deadline" } else { "s2c_delay" });
                }
                let key = self.session_key();
                if let Some(f) = apply_corruption(&mut bytes, &kv, &key) {
                    self.ledger.stats.fault(&f);
                    fault = if fault.is_empty() { f } else { format!("{}+{}", fault, f) };
                }
            }
        }
        self.sent_s2c.push(bytes.clone());
        if drop {
            return;
        }
        let mut at = self.now + delay;
        for c in 0..=dup as usize {
            if reliable {
                at = at.max(self.s2c_last_at);
                self.s2c_last_at = at;
            }
            if !self.opts.suppress.contains(&Origin::S2c(n.clone(), c)) {
                self.push(at, EvKind::S2c { ident: n.clone(), copy: c, bytes: bytes.clone(), fault: fault.clone() });
            }
            at += gap;
        }
    }

    /// A rough upper bound of a transaction's lifetime, used to aim "late" faults.
    fn deadline_hint(&self) -> u64 {
        match self.cfg.transport {
            Transport::Reliable { timeout_ns } => timeout_ns,
            Transport::Unreliable { rto_ns, rm, rc, .. } => {
                let m = (1u64 << (rc.saturating_sub(1)).min(20)) - 1 + rm as u64;
                rto_ns.saturating_mul(m).min(3600 * SEC)
            }
        }
    }

    fn server_rx(&mut self, bytes: Vec<u8>, ident: String) {
        // a-th arrival of this very packet (duplicates in the network)
        let a = {
            let e = self.srv_arrivals.entry(ident.clone()).or_insert(0);
            *e += 1;
            *e - 1
        };
        let n = format!("{}.a{}", ident, a);
        let mut spec: Kv = vec![];
        if self.faults_on() {
            let p = self.profile.clone();
            let off = self.swarm_off[SW_SRV];
            let mech = self.cfg.mech.clone();
            let storm = self.cfg.storm;
            let v = self.src.decide(&format!("srv#{}", n), |rng| {
                if off {
                    return None;
                }
                let mut parts: Vec<String> = vec![];
                let x = rng.below(1000);
                if x < p.p_srv_silent {
                    return Some("silent".to_string());
                }
                if rng.chance(p.p_srv_code, 1000) {
                    parts.push(format!("code={}", *rng.pick(&[300u64, 400, 420, 500, 699, 401, 438])));
                }
                if mech != Mech::None && rng.chance(if storm { 850 } else { p.p_srv_integ }, 1000) {
                    parts.push(format!("integ={}", *rng.pick(&["none", "bad", "wrongkey", "other", "both", "mi", "sha"])));
                }
                if rng.chance(p.p_srv_fp, 1000) {
                    parts.push(format!("fp={}", *rng.pick(&["none", "bad", "force"])));
                }
                if mech == Mech::LongTerm && rng.chance(p.p_srv_lt, 1000) {
                    match rng.below(8) {
                        0 | 1 => parts.push("lt=438".to_string()),
                        2 => parts.push("lt=401".to_string()),
                        3 => parts.push("lt=accept".to_string()),
                        4 => parts.push(format!("lt=401 algs={}", *rng.pick(&["none", "md5", "sha", "md5sha", "shamd5", "unsup", "unsupsha", "empty", "md5p1", "shap2", "p3sha", "md5p5sha", "p2md5sha"]))),
                        5 => {
                            if rng.chance(1, 2) {
                                parts.push(format!("lt=401 anon={} nonce={}", rng.below(2), *rng.pick(&["plain", "cookie"])))
                            } else {
                                // the server moves the user to another realm (a new challenge for a different realm)
                                parts.push(format!("lt=401 realm={}", *rng.pick(REALMS)))
                            }
                        }
                        6 => parts.push(format!("lt=401 {}", *rng.pick(&["norealm", "nononce", "noerr", "noalgs"]))),
                        _ => parts.push(format!("lt=438 {}", *rng.pick(&["nononce", "norealm", "noerr", "noalgs", "integ=auto", "anon=0", "anon=1", "anon=0", "anon=1"]))),
                    }
                }
                if rng.chance(p.p_srv_hostile, 2000) {
                    // an error response whose reason phrase is around the 763-byte limit, with a multi-byte character
                    // at a chosen byte offset
                    parts.push(format!(
                        "code={} reason={}:{}:{}",
                        *rng.pick(&[300u64, 400, 420, 500, 699]),
                        *rng.pick(&[0u64, 1, 33, 127, 128, 509, 762, 763, 764, 765, 800, 2000]),
                        rng.below(70),
                        rng.below(3)
                    ));
                }
                if mech == Mech::LongTerm && rng.chance(p.p_srv_hostile, 1000) {
                    parts.push(format!(
                        "lt={} hostile={}{}{}",
                        *rng.pick(&["401", "401", "438", "438"]),
                        // (half of the time one of the over-long values between the encode and decode limits)
                        if rng.chance(1, 2) { *rng.pick(&[12u64, 14, 15, 16]) } else { rng.below(40) },
                        if rng.chance(1, 4) { " hrealm" } else { "" },
                        // now and then such a reply is correctly protected under the session key
                        if rng.chance(1, 3) { " integ=auto" } else { "" }
                    ));
                }
                if rng.chance(p.p_srv_more, 1000) {
                    parts.push(format!("more={}", rng.below(1 << 24)));
                }
                if rng.chance(p.p_srv_more, 3000) {
                    parts.push(format!("pad={}", *rng.pick(&[0x20u64, 0xff, 0x01, 0x80])));
                }
                if rng.chance(p.p_srv_dup, 1000) {
                    parts.push(format!("dup={}", rng.range(1, 2)));
                }
                if rng.chance(p.p_srv_think, 1000) {
                    parts.push(format!("think={}", rng.log_range(1000, 5 * SEC)));
                }
                if rng.chance(p.p_splice, 1000) {
                    let k = rng.range(1, 4);
                    let mut s = String::new();
                    for _ in 0..k {
                        s.push(*rng.pick(&['a', 'u', 'm', 'M', 's', 'S', 'f', 'F']));
                    }
                    parts.push(format!("extra={}", s));
                }
                if parts.is_empty() {
                    None
                } else {
                    Some(parts.join(" "))
                }
            });
            if let Some(v) = v {
                spec = parse_kv(&v);
                for (k, val) in &spec {
                    let label = match k.as_str() {
                        "silent" => "srv_silent".to_string(),
                        "code" => "srv_error_code".to_string(),
                        "integ" => format!("srv_integ_{}", val),
                        "fp" => format!("srv_fp_{}", val),
                        "lt" => format!("srv_lt_{}", val),
                        "hostile" => "srv_hostile_string".to_string(),
                        "reason" => "srv_long_reason_phrase".to_string(),
                        "dup" => "srv_dup_response".to_string(),
                        "think" => "srv_slow".to_string(),
                        "extra" => "srv_splice".to_string(),
                        "more" => "srv_more_attribute_kinds".to_string(),
                        "pad" => "srv_nonzero_padding".to_string(),
                        "algs" | "anon" | "nonce" => "srv_offer_change".to_string(),
                        "norealm" | "nononce" | "noerr" | "noalgs" => format!("srv_{}", k),
                        _ => continue,
                    };
                    self.ledger.stats.fault(&label);
                }
            }
        }
        let replies = self.server.on_datagram(&bytes, &spec);
        // replies of the hostile-server family (over-long / non-UTF-8 strings, reason phrases around the limit) are
        // marked as such in the ledger: like messages damaged in flight they are subject to the safety rules only
        self.s2c_hostile = kv_has(&spec, "hostile") || kv_has(&spec, "reason");
        for (ri, r) in replies.into_iter().enumerate() {
            self.net_s2c(r.bytes, r.think_ns, format!("{}.r{}", n, ri));
        }
        self.s2c_hostile = false;
    }

    // ----- calls into the real client --------------------------------------------------------

    fn do_send(&mut self, app: usize, a: &AppAction) {
        let ordinal = self.n_send;
        self.n_send += 1;
        if self.opts.skip_sends.contains(&ordinal) {
            return;
        }
        let attrs = build_app_attrs(&a.attrs);
        let buf = vec![a.fill; a.buf];
        let inst = self.instant(self.now);
        let method = a.method;
        let Some(c) = self.client.as_mut() else { return };
        if a.ind {
            let r = catch_unwind(AssertUnwindSafe(|| c.send_indication(MessageMethod::try_from(method & 0x0fff).unwrap(), attrs, buf)));
            let res = match r {
                Ok(Ok(id)) => CallResult::OkId(id_of(&id)),
                Ok(Err(e)) => CallResult::Err(conv_err(&e)),
                Err(e) => CallResult::Panic(format!("{} at {}", panic_msg(e), take_panic_loc())),
            };
            self.finish_step(
                Call::SendIndication { app, method, attrs: a.attrs.clone(), buf_len: a.buf, fill: a.fill },
                res,
            );
        } else {
            let r = catch_unwind(AssertUnwindSafe(|| c.send_request(MessageMethod::try_from(method & 0x0fff).unwrap(), attrs, buf, inst)));
            let res = match r {
                Ok(Ok(id)) => CallResult::OkId(id_of(&id)),
                Ok(Err(e)) => CallResult::Err(conv_err(&e)),
                Err(e) => CallResult::Panic(format!("{} at {}", panic_msg(e), take_panic_loc())),
            };
            self.finish_step(
                Call::SendRequest { app, method, attrs: a.attrs.clone(), buf_len: a.buf, fill: a.fill },
                res,
            );
        }
    }

    fn do_recv(&mut self, bytes: Vec<u8>, origin: Origin, fault: String) {
        let inst = self.instant(self.now);
        let Some(c) = self.client.as_mut() else { return };
        let r = catch_unwind(AssertUnwindSafe(|| c.on_buffer_recv(&bytes, inst)));
        let res = match r {
            Ok(Ok(())) => CallResult::Ok,
            Ok(Err(e)) => CallResult::Err(conv_err(&e)),
            Err(e) => CallResult::Panic(format!("{} at {}", panic_msg(e), take_panic_loc())),
        };
        self.finish_step(Call::Recv { bytes, origin, fault }, res);
    }

    fn do_timeout(&mut self, timer_n: Option<usize>, spurious: bool) {
        let inst = self.instant(self.now);
        let Some(c) = self.client.as_mut() else { return };
        let r = catch_unwind(AssertUnwindSafe(|| c.on_timeout(inst)));
        let res = match r {
            Ok(()) => CallResult::Ok,
            Err(e) => CallResult::Panic(format!("{} at {}", panic_msg(e), take_panic_loc())),
        };
        self.finish_step(Call::Timeout { timer_n, spurious }, res);
    }

    fn restart(&mut self) {
        self.gen += 1;
        self.client = build_client(&self.cfg).ok();
        let idx = self.ledger.steps.len();
        let snap = self.snapshot();
        self.ledger.steps.push(Step {
            idx,
            t: self.now,
            call: Call::Restart,
            result: CallResult::Ok,
            events: vec![],
            snap,
            phase: self.phase,
            gen: self.gen,
        });
    }

    // ----- injections ------------------------------------------------------------------------

    fn do_inj(&mut self, k: usize, kv: &Kv) {
        let kind = kv_str(kv, "kind", "");
        let origin = Origin::Inj(k);
        if self.opts.suppress.contains(&origin) {
            return;
        }
        match kind.as_str() {
            "replay" => {
                // replay of an older packet that was sent towards the client
                if !self.sent_s2c.is_empty() {
                    let i = kv_u64(kv, "pkt", 0) as usize % self.sent_s2c.len();
                    let b = self.sent_s2c[i].clone();
                    self.ledger.stats.fault("inj_replay_old_packet");
                    self.do_recv(b, origin, "inj:replay".into());
                }
            }
            "finished" | "unknown" => {
                // a well-formed, correctly protected success response for a finished / unknown id
                let id: Option<Id> = if kind == "finished" {
                    let fin: Vec<&Tx> = self.ledger.txs.iter().filter(|t| !t.finals.is_empty() && t.gen == self.gen).collect();
                    if fin.is_empty() {
                        None
                    } else {
                        Some(fin[kv_u64(kv, "tx", 0) as usize % fin.len()].id)
                    }
                } else if kv.iter().any(|(k, _)| k == "near") {
                    let open: Vec<Id> = self.ledger.txs.iter().filter(|t| t.finals.is_empty() && t.gen == self.gen).map(|t| t.id).collect();
                    if open.is_empty() {
                        None
                    } else {
                        let mut id = open[kv_u64(kv, "tx", 0) as usize % open.len()];
                        let bit = kv_u64(kv, "near", 0) as usize % 96;
                        id[bit / 8] ^= 1 << (bit % 8);
                        // (a one-bit neighbour that happens to be another outstanding id is practically impossible)
                        if open.contains(&id) {
                            None
                        } else {
                            Some(id)
                        }
                    }
                } else {
                    let mut id = [0u8; 12];
                    let v = kv_u64(kv, "id", 7).to_be_bytes();
                    id[..8].copy_from_slice(&v);
                    id[8..].copy_from_slice(&v[..4]);
                    Some(id)
                };
                if let Some(id) = id {
                    let b = self.honest_response_for(&id, kv_u64(kv, "err", 0) != 0);
                    self.ledger.stats.fault(if kind == "finished" { "inj_response_finished_id" } else { "inj_response_unknown_id" });
                    self.do_recv(b, origin, format!("inj:{}", kind));
                }
            }
            "reflect" => {
                // the client's own datagram comes back (hair-pin NAT, reflecting peer): a request-class message
                // that carries the id of one of its own, possibly still outstanding, requests
                if !self.sent_c2s.is_empty() {
                    let i = self.sent_c2s.len() - 1 - (kv_u64(kv, "back", 0) as usize).min(self.sent_c2s.len() - 1);
                    let b = self.sent_c2s.values().nth(i).cloned().unwrap_or_default();
                    self.ledger.stats.fault("inj_reflected_own_packet");
                    self.do_recv(b, origin, "inj:reflect".into());
                }
            }
            "request" => {
                let mut id = [0u8; 12];
                id[0] = 0x77;
                id[11] = k as u8;
                let mut b = wire::Builder::new(wire::C_REQUEST, 1, &id);
                b.push_attr(wire::A_SOFTWARE, b"peer-request");
                if self.cfg.fp {
                    b.push_fingerprint();
                }
                self.ledger.stats.fault("inj_request_class");
                self.do_recv(b.finish(), origin, "inj:request".into());
            }
            "ind" => {
                let mut id = [0u8; 12];
                id[0] = 0x49;
                id[11] = k as u8;
                if kv_has(kv, "usetx") {
                    // an indication that carries the id of a request still awaiting its response
                    let gen = self.gen;
                    let aw: Vec<Id> = self.ledger.txs.iter().filter(|t| t.gen == gen && t.finals.is_empty()).map(|t| t.id).collect();
                    if !aw.is_empty() {
                        id = aw[kv_u64(kv, "usetx", 0) as usize % aw.len()];
                        self.ledger.stats.fault("inj_indication_with_outstanding_id");
                    }
                }
                let hint = self.learned_alg();
                let mut kv2 = kv.clone();
                if self.cfg.fp && !kv_has(&kv2, "fp") {
                    kv2.push(("fp".into(), "force".into()));
                }
                let b = self.server.build_indication(&id, &kv2, hint);
                self.ledger.stats.fault("inj_indication");
                self.do_recv(b, origin, "inj:ind".into());
            }
            "random" => {
                let mut r = Rng::new(kv_u64(kv, "seed", 1));
                let n = kv_u64(kv, "n", 20) as usize;
                let mut b = r.bytes(n);
                if kv_has(kv, "stunlike") && b.len() >= 20 {
                    b[0] &= 0x3f;
                    b[4..8].copy_from_slice(&wire::MAGIC);
                    let l = (b.len() - 20) as u16;
                    b[2..4].copy_from_slice(&l.to_be_bytes());
                    if kv_has(kv, "len") {
                        b[2..4].copy_from_slice(&(kv_u64(kv, "len", 0) as u16).to_be_bytes());
                    }
                }
                self.ledger.stats.fault("inj_random_bytes");
                self.do_recv(b, origin, "inj:random".into());
            }
            "bigfp" => {
                let a = (kv_u64(kv, "attr", 65516) as usize).min(65520);
                let mut id = [0u8; 12];
                id[0] = 0x42;
                id[11] = k as u8;
                let mut b = wire::Builder::new(wire::C_INDICATION, 1, &id);
                b.push_attr(0x8055, &vec![0xab; a]);
                b.push_fingerprint();
                self.ledger.stats.fault("inj_valid_message_near_64k");
                self.do_recv(b.finish(), origin, "inj:bigfp".into());
            }
            "timeout" => {
                self.ledger.stats.fault("timer_spurious");
                self.do_timeout(None, true);
            }
            "stall" => {
                let d = kv_u64(kv, "dur", SEC);
                self.stall_until = self.stall_until.max(self.now + d);
                self.ledger.stats.fault("stall_or_clock_jump");
            }
            "restart" => {
                self.ledger.stats.fault("client_restart");
                self.restart();
            }
            _ => {}
        }
    }

    /// The algorithm a short-term client has configured or (per the ledger) learned.
    fn learned_alg(&self) -> Option<Alg> {
        let s = &self.snapshot().cred;
        if s.contains("MessageIntegritySha256") {
            Some(Alg::Sha)
        } else if s.contains("MessageIntegrity)") {
            Some(Alg::Mi)
        } else {
            None
        }
    }

    /// A response a well-behaved server would produce for `id`, correctly protected for the
    /// current credential state (used for late/duplicate/unknown-id deliveries and probes).
    fn honest_response_for(&self, id: &Id, error: bool) -> Vec<u8> {
        let mut b = if error {
            let mut b = wire::Builder::new(wire::C_ERROR, 1, id);
            b.push_attr(wire::A_ERROR_CODE, &wire::error_code_value(400, "Bad Request"));
            b
        } else {
            let mut b = wire::Builder::new(wire::C_SUCCESS, 1, id);
            b.push_attr(wire::A_XOR_MAPPED_ADDRESS, &wire::xor_mapped_v4(40001, [192, 0, 2, 34]));
            b
        };
        match self.cfg.mech {
            Mech::None => {}
            Mech::ShortTerm(_) => {
                let key = self.server.short_term_key();
                match self.learned_alg() {
                    Some(Alg::Mi) => b.push_mi(&key),
                    _ => b.push_mi256(&key),
                }
            }
            Mech::LongTerm => {
                let key = self.session_key();
                if crate::server::algs_list(&self.server.ses_algs).is_some() {
                    b.push_mi256(&key)
                } else {
                    b.push_mi(&key)
                }
            }
        }
        if self.cfg.fp {
            b.push_fingerprint();
        }
        b.finish()
    }

    // ----- main loop ---------------------------------------------------------------------------

    fn run(&mut self) {
        // application actions and injections are drawn up front
        let p = self.profile.clone();
        let mut t = 0u64;
        let mut burst_left = 0u64;
        let mut last_action = 0u64;
        for k in 0..self.cfg.n_app {
            if self.opts.skip_apps.contains(&k) {
                // still consume the decision so that generation stays aligned
            }
            let first = k == 0;
            let off = self.swarm_off[SW_APP];
            let align_unit = self.cfg.rc_rm_rto().2.max(1);
            let lifetime_mult = {
                let (rc, rm, _) = self.cfg.rc_rm_rto();
                ((1u64 << (rc.clamp(1, 40) - 1)) - 1 + rm as u64).min(100_000)
            };
            let storm = self.cfg.storm;
            let v = self.src.decide(&format!("app#{}", k), |rng| {
                let gap = if first {
                    rng.below(1000)
                } else if rng.chance(p.p_gap_600s, 1000) {
                    match rng.below(5) {
                        // the boundary itself: exactly ten minutes is not "more than ten minutes"
                        4 => *rng.pick(&[600 * SEC, 600 * SEC + 1, 600 * SEC - 1]),
                        0 => 600 * SEC + rng.range(0, 2 * MS) - MS,
                        1 => 600 * SEC + 1 + rng.below(40 * SEC),
                        2 => 600 * SEC - rng.below(SEC),
                        _ => rng.log_range(600 * SEC, 5000 * SEC),
                    }
                } else if burst_left > 0 || rng.chance(if storm { 900 } else { p.p_burst }, 1000) {
                    // back to back with the previous action: the same instant, or one nanosecond later;
                    // bursts come in runs of 2-9 actions
                    if burst_left > 0 {
                        burst_left -= 1;
                    } else {
                        burst_left = rng.range(1, 8);
                    }
                    rng.below(2)
                } else if rng.chance(p.p_align, 1000) {
                    // start this request a whole number of RTOs after the previous one, so that retransmission
                    // slots and deadlines of concurrent requests coincide (or miss each other by one nanosecond)
                    // ... or exactly one request lifetime after it (the instant at which it fails if nothing answers)
                    let m = if rng.chance(1, 4) { lifetime_mult } else { *rng.pick(&[1u64, 1, 2, 3, 4, 6, 7, 8, 15]) };
                    (align_unit.saturating_mul(m) + rng.range(0, 2)).saturating_sub(1)
                } else {
                    rng.log_range(p.app_gap_ns.0, p.app_gap_ns.1)
                };
                t += gap;
                let ind = rng.chance(p.p_indication, 1000);
                let attrs = gen_app_attrs(&p, rng);
                let short = !off && rng.chance(p.p_short_buf, 1000);
                let buf = if short { *rng.pick(&[0u64, 10, 19, 20, 24, 28, 40, 60, 100]) } else { *rng.pick(&[512u64, 1024, 1500, 300]) };
                let fill = *rng.pick(&[0u64, 0, 0xff, 0xa5]);
                let method = if rng.chance(1, 10) { *rng.pick(&[2u64, 3, 0x0ff, 0xfff]) } else { 1 };
                Some(format!(
                    "t={} kind={} m={} attrs={} buf={} fill={}",
                    t,
                    if ind { "ind" } else { "req" },
                    method,
                    attrs,
                    buf,
                    fill
                ))
            });
            if let Some(v) = v {
                let kv = parse_kv(&v);
                let a = AppAction {
                    t: kv_u64(&kv, "t", 0),
                    ind: kv_str(&kv, "kind", "req") == "ind",
                    method: kv_u64(&kv, "m", 1) as u16,
                    attrs: kv_str(&kv, "attrs", "-"),
                    buf: kv_u64(&kv, "buf", 1024) as usize,
                    fill: kv_u64(&kv, "fill", 0) as u8,
                };
                last_action = last_action.max(a.t);
                if !self.opts.skip_apps.contains(&k) {
                    self.push(a.t, EvKind::App(k));
                }
                self.apps.push(Some(a));
            } else {
                self.apps.push(None);
            }
        }
        let horizon = t.max(last_action);
        let mut injs: Vec<Option<Kv>> = vec![];
        for k in 0..self.cfg.n_inj {
            let off = self.swarm_off[SW_INJ];
            let dl = self.deadline_hint();
            let v = self.src.decide(&format!("inj#{}", k), |rng| {
                if off {
                    return None;
                }
                let tot: u64 = p.inj_w.iter().sum();
                if tot == 0 {
                    return None;
                }
                let mut x = rng.below(tot);
                let mut kind = 0;
                for (i, w) in p.inj_w.iter().enumerate() {
                    if x < *w {
                        kind = i;
                        break;
                    }
                    x -= w;
                }
                let at = rng.below(horizon + dl.min(60 * SEC) + 1);
                Some(match kind {
                    0 => format!("t={} kind=replay pkt={}", at, rng.below(16)),
                    1 => {
                        if rng.chance(1, 2) {
                            // a near miss: the id of an outstanding request with one bit changed
                            format!("t={} kind=unknown near={} tx={} err={}", at, rng.below(96), rng.below(8), rng.below(2))
                        } else {
                            format!("t={} kind=unknown id={} err={}", at, rng.below(1000), rng.below(2))
                        }
                    }
                    2 => {
                        if rng.chance(1, 2) {
                            format!("t={} kind=request", at)
                        } else {
                            format!("t={} kind=reflect back={}", at, rng.below(3))
                        }
                    }
                    3 => format!(
                        "t={} kind=ind integ={}{}",
                        at,
                        *rng.pick(&["auto", "auto", "none", "bad", "wrongkey", "other", "both", "mi", "sha"]),
                        if rng.chance(1, 5) { *rng.pick(&[" fp=none", " fp=bad", " fp=force"]) } else if rng.chance(1, 4) { *rng.pick(&[" usetx=0", " usetx=1", " usetx=2"]) } else { "" }
                    ),
                    4 if rng.chance(1, 12) => {
                        // a valid message close to the 16-bit limits: one large attribute, then FINGERPRINT at an
                        // attribute offset around 65,516 (offsets and lengths that no longer fit once 20 is added)
                        format!("t={} kind=bigfp attr={}", at, *rng.pick(&[65496u64, 65500, 65504, 65508, 65512, 65516, 65520, 65519, 32768, 65000]))
                    }
                    4 => format!(
                        "t={} kind=random seed={} n={}{}",
                        at,
                        rng.below(1 << 30),
                        // mostly small; sometimes up to the 64 KiB a datagram can carry
                        if rng.chance(1, 25) { rng.range(1000, 65535) } else { rng.below(120) },
                        if rng.chance(1, 2) {
                            if rng.chance(1, 3) {
                                // a well-formed header that announces a boundary length (16-bit limits, unaligned, zero)
                                format!(" stunlike len={}", *rng.pick(&[0u64, 1, 3, 4, 0xFFEB, 0xFFEC, 0xFFED, 0xFFF0, 0xFFFB, 0xFFFC, 0xFFFD, 0xFFFF, 0x8000, 0x7FFC]))
                            } else {
                                " stunlike".to_string()
                            }
                        } else {
                            String::new()
                        }
                    ),
                    5 => format!("t={} kind=random seed={} n={}", at, rng.below(1 << 30), rng.below(30)),
                    6 => format!("t={} kind=timeout", at),
                    7 => format!("t={} kind=stall dur={}", at, rng.log_range(MS, 700 * SEC)),
                    8 => format!("t={} kind=restart", at),
                    _ => format!("t={} kind=finished tx={} err={}", at, rng.below(8), rng.below(2)),
                })
            });
            match v {
                Some(v) => {
                    let kv = parse_kv(&v);
                    let at = kv_u64(&kv, "t", 0);
                    last_action = last_action.max(at);
                    self.push(at, EvKind::Inj(k));
                    injs.push(Some(kv));
                }
                None => injs.push(None),
            }
        }
        if !self.opts.no_epilogue {
            // faults keep flowing for a while after the last scheduled action, so that the last
            // requests also live through loss, lateness and hostile replies
            let dl = self.deadline_hint();
            let lat = self.cfg.lat_ns;
            let v = self.src.decide("eof", |rng| {
                Some(format!("t={}", last_action + 1 + rng.below(dl + dl / 2 + 4 * lat + 1)))
            });
            let at = v.map(|v| kv_u64(&parse_kv(&v), "t", last_action + 1)).unwrap_or(last_action + 1);
            self.push(at.max(last_action + 1), EvKind::EndOfFaults);
        }

        let mut main_steps = 0usize;
        loop {
            if self.ledger.steps.len() >= STEP_CAP {
                self.ledger.truncated = true;
                break;
            }
            if self.ledger.panicked().is_some() {
                break;
            }
            let Some(Reverse(ev)) = self.heap.pop() else {
                if (self.phase == Phase::Quiesce || self.phase == Phase::Probe) && self.probe_stage < 3 {
                    self.probe_phase();
                    continue;
                }
                break;
            };
            let at = ev.at.max(self.stall_until);
            if at > self.now {
                self.now = at;
            }
            let before = self.ledger.steps.len();
            match ev.kind {
                EvKind::App(k) => {
                    if let Some(Some(a)) = self.apps.get(k).cloned() {
                        self.do_send(k, &a);
                    }
                }
                EvKind::Resend { app, .. } => {
                    if let Some(Some(a)) = self.apps.get(app).cloned() {
                        self.do_send(app, &a);
                    }
                }
                EvKind::Inj(k) => {
                    if self.phase == Phase::Main {
                        if let Some(Some(kv)) = injs.get(k).cloned() {
                            self.do_inj(k, &kv);
                        }
                    }
                }
                EvKind::C2s { bytes, ident } => self.server_rx(bytes, ident),
                EvKind::S2c { ident, copy, mut bytes, mut fault } => {
                    let origin = Origin::S2c(ident, copy);
                    if let Some((o, spec)) = self.opts.override_delivery.clone() {
                        if o == origin {
                            let key = self.session_key();
                            if let Some(f) = apply_corruption(&mut bytes, &parse_kv(&spec), &key) {
                                self.ledger.stats.fault(&f);
                                fault = format!("{}(sweep)", f);
                            }
                        }
                    }
                    self.do_recv(bytes, origin, fault)
                }
                EvKind::Timer { gen, n } => {
                    if gen == self.timer_gen && self.timer_armed.is_some() {
                        self.timer_armed = None;
                        self.do_timeout(Some(n), false);
                    }
                }
                EvKind::EndOfFaults => {
                    self.phase = Phase::Quiesce;
                    self.ledger.quiesce_from = Some(self.ledger.steps.len());
                    // from now on the server is honest, and lenient on exactly the two pinned request shapes
                    self.server.cfg.lenient = true;
                    // a controller whose timer was dropped by a restart or is very late still has it armed;
                    // nothing to do: the armed timer (if any) fires from the heap.
                }
            }
            if self.phase == Phase::Main {
                main_steps += self.ledger.steps.len() - before;
                if let Some(stop) = self.opts.stop_after {
                    if self.ledger.steps.len() > stop && self.phase == Phase::Main {
                        // truncate the main phase here: drop pending application actions and injections
                        let kept: Vec<Reverse<QEv>> = self
                            .heap
                            .drain()
                            .filter(|Reverse(e)| !matches!(e.kind, EvKind::App(_) | EvKind::Inj(_) | EvKind::Resend { .. } | EvKind::EndOfFaults))
                            .collect();
                        for e in kept {
                            self.heap.push(e);
                        }
                        self.phase = Phase::Quiesce;
                        self.ledger.quiesce_from = Some(self.ledger.steps.len());
                        self.server.cfg.lenient = true;
                    }
                }
            }
        }
        let _ = main_steps;
        self.ledger.stats.sim_ns = self.now as u128;
    }

    /// Probes issued once the run is quiescent (heap empty, faults stopped).
    fn probe_phase(&mut self) {
        let stage = self.probe_stage;
        self.probe_stage += 1;
        if stage == 0 {
            self.phase = Phase::Probe;
            // twin runs probe at the instant the original run did
            if let Some(at) = self.opts.probe_start_at {
                self.now = self.now.max(at);
            }
            self.ledger.probe_start_ns = Some(self.now);
        }
        if self.ledger.panicked().is_some() {
            return;
        }
        if stage == 1 {
            if self.opts.probe_fresh_request {
                // the server starts a fresh session: whatever was negotiated under faults is forgotten
                self.server.reset_session();
                let a = AppAction { t: self.now, ind: false, method: 1, attrs: "-".into(), buf: 4096, fill: 0 };
                let app = self.apps.len();
                self.apps.push(Some(a.clone()));
                self.ledger.fresh_probe_app = Some(app);
                self.now += 1000;
                self.do_send(app, &a);
            }
            return;
        }
        if stage == 2 {
            self.capacity_probe();
            return;
        }
        if self.opts.probe_late_responses {
            // a correctly protected response for finished transactions: must be rejected
            let fin: Vec<Id> = self
                .ledger
                .txs
                .iter()
                .filter(|t| !t.finals.is_empty() && t.gen == self.gen)
                .map(|t| t.id)
                .collect();
            let mut picks: Vec<Id> = vec![];
            if let Some(f) = fin.first() {
                picks.push(*f);
            }
            for id in fin.iter().rev().take(3) {
                if !picks.contains(id) {
                    picks.push(*id);
                }
            }
            for (i, id) in picks.iter().enumerate() {
                let b = self.honest_response_for(id, i % 2 == 1);
                self.now += 1000;
                self.do_recv(b, Origin::Probe, "probe:late-response".into());
                if self.ledger.panicked().is_some() {
                    return;
                }
            }
            // and an expiry far in the future: no event may name a finished transaction
            self.now += 1000;
            self.do_timeout(None, true);
        }
    }

    fn capacity_probe(&mut self) {
        if self.opts.probe_capacity && self.cfg.max_tx <= 16 && self.ledger.panicked().is_none() {
            let a = AppAction { t: self.now, ind: false, method: 1, attrs: "-".into(), buf: 1024, fill: 0 };
            let app = self.apps.len();
            self.apps.push(Some(a.clone()));
            for _ in 0..=self.cfg.max_tx {
                self.now += 1000;
                self.do_send(app, &a);
                if self.ledger.panicked().is_some() {
                    return;
                }
            }
        }
    }
}

pub struct RunResult {
    pub ledger: Ledger,
    /// decisions that make up this execution (plan entries)
    pub entries: Vec<(String, String)>,
}

/// Executes one run. `profile` is only consulted when `src` generates decisions.
pub fn run(src: &mut Source, profile: &Profile, opts: &RunOpts) -> RunResult {
    let cfg_line = src.decide("cfg", |rng| Some(cfg_to_line(&gen_cfg(profile, rng))));
    let cfg = cfg_from_line(cfg_line.as_deref().unwrap_or(""));
    // swarm: switch whole fault groups off for this run
    let mut swarm_off = [false; 6];
    let mut perfect = false;
    if src.is_gen() {
        let v = src.decide("swarm", |rng| {
            let mut s = String::new();
            for _ in 0..6 {
                s.push(if rng.chance(profile.p_swarm_off, 1000) { '0' } else { '1' });
            }
            if rng.chance(profile.p_perfect, 1000) {
                s.push('P');
            }
            Some(s)
        });
        if let Some(v) = v {
            for (i, c) in v.chars().take(6).enumerate() {
                swarm_off[i] = c == '0';
            }
            perfect = v.contains('P');
        }
    } else {
        // replay: the plan lists the faults explicitly; `swarm` is informational
        let _ = src.decide("swarm", |_| None);
    }
    // systematic sweeps record the delivery they tamper with as a plan entry, so that replay files work
    let mut opts = opts.clone();
    if let Some(v) = src.decide("override", |_| None) {
        let kv = parse_kv(&v);
        let n = kv_str(&kv, "n", "");
        let c = kv_u64(&kv, "c", 0) as usize;
        opts.override_delivery = Some((Origin::S2c(n, c), v.clone()));
    }
    let opts = &opts;
    stun_rs::verif::seed_transaction_ids(Some(cfg.txid_seed));
    let client = build_client(&cfg).ok();
    let server = RefServer::new(ServerCfg {
        mech: cfg.mech.clone(),
        user: cfg.user.clone(),
        password: cfg.pw(),
        realm: cfg.realm.clone(),
        cookie: cfg.srv_cookie,
        anon: cfg.srv_anon,
        algs: cfg.srv_algs.clone(),
        legacy: cfg.srv_legacy,
        lenient: cfg.srv_lenient,
    });
    let ledger = Ledger {
        cfg: cfg.clone(),
        steps: vec![],
        txs: vec![],
        stats: Stats::default(),
        quiesce_from: None,
        probe_start_ns: None,
        fresh_probe_app: None,
        truncated: false,
        custom: vec![],
        custom_log: vec![],
        custom_sigs: vec![],
    };
    let mut w = World {
        cfg,
        profile: profile.clone(),
        src,
        opts: opts.clone(),
        epoch: epoch(),
        now: 0,
        seq: 0,
        heap: BinaryHeap::new(),
        client,
        gen: 0,
        server,
        timer_gen: 0,
        timer_armed: None,
        n_timer: 0,
        n_c2s: 0,
        n_s2c: 0,
        n_srv: 0,
        srv_arrivals: Default::default(),
        n_retry: 0,
        n_send: 0,
        probe_stage: 0,
        s2c_last_at: 0,
        c2s_last_at: 0,
        stall_until: 0,
        phase: Phase::Main,
        ledger,
        apps: vec![],
        sent_s2c: vec![],
        sent_c2s: Default::default(),
        swarm_off,
        perfect,
        s2c_hostile: false,
    };
    if w.client.is_some() {
        w.run();
    }
    stun_rs::verif::seed_transaction_ids(None);
    let ledger = w.ledger;
    let entries = std::mem::take(&mut w.src.recorded);
    RunResult { ledger, entries }
}

/// One `Instant` per process; only differences are ever observable.
pub fn epoch() -> Instant {
    use std::sync::OnceLock;
    static E: OnceLock<Instant> = OnceLock::new();
    *E.get_or_init(Instant::now)
}
