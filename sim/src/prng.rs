//! Seeded pseudo-random generator (xoshiro256**, seeded through SplitMix64).
//! Everything random in the simulator derives from one `Rng`.

#[derive(Clone, Debug)]
pub struct Rng {
    s: [u64; 4],
}

pub fn splitmix64(state: &mut u64) -> u64 {
    *state = state.wrapping_add(0x9E37_79B9_7F4A_7C15);
    let mut z = *state;
    z = (z ^ (z >> 30)).wrapping_mul(0xBF58_476D_1CE4_E5B9);
    z = (z ^ (z >> 27)).wrapping_mul(0x94D0_49BB_1331_11EB);
    z ^ (z >> 31)
}

/// Mixes (seed, property tag, run index) into one 64-bit stream seed.
pub fn mix(seed: u64, tag: u64, run: u64) -> u64 {
    let mut st = seed ^ 0xA076_1D64_78BD_642F;
    let a = splitmix64(&mut st);
    st ^= tag.wrapping_mul(0xE703_7ED1_A0B4_28DB);
    let b = splitmix64(&mut st);
    st ^= run.wrapping_mul(0x8EBC_6AF0_9C88_C6E3);
    let c = splitmix64(&mut st);
    a ^ b.rotate_left(21) ^ c.rotate_left(42)
}

impl Rng {
    pub fn new(seed: u64) -> Self {
        let mut st = seed;
        let s = [
            splitmix64(&mut st),
            splitmix64(&mut st),
            splitmix64(&mut st),
            splitmix64(&mut st),
        ];
        Rng { s }
    }

    #[inline]
    pub fn next_u64(&mut self) -> u64 {
        let result = self.s[1].wrapping_mul(5).rotate_left(7).wrapping_mul(9);
        let t = self.s[1] << 17;
        self.s[2] ^= self.s[0];
        self.s[3] ^= self.s[1];
        self.s[1] ^= self.s[2];
        self.s[0] ^= self.s[3];
        self.s[2] ^= t;
        self.s[3] = self.s[3].rotate_left(45);
        result
    }

    /// Uniform in [0, n); n must be > 0.
    #[inline]
    pub fn below(&mut self, n: u64) -> u64 {
        debug_assert!(n > 0);
        // multiply-shift; bias is negligible for the n used here
        ((self.next_u64() as u128 * n as u128) >> 64) as u64
    }

    /// Uniform in [lo, hi] inclusive.
    #[inline]
    pub fn range(&mut self, lo: u64, hi: u64) -> u64 {
        debug_assert!(lo <= hi);
        lo + self.below(hi - lo + 1)
    }

    #[inline]
    pub fn usize(&mut self, n: usize) -> usize {
        self.below(n as u64) as usize
    }

    /// True with probability num/den.
    #[inline]
    pub fn chance(&mut self, num: u64, den: u64) -> bool {
        self.below(den) < num
    }

    pub fn pick<'a, T>(&mut self, xs: &'a [T]) -> &'a T {
        &xs[self.usize(xs.len())]
    }

    /// Log-uniform in [lo, hi] (both > 0).
    pub fn log_range(&mut self, lo: u64, hi: u64) -> u64 {
        debug_assert!(lo > 0 && lo <= hi);
        let l = (lo as f64).ln();
        let h = (hi as f64).ln();
        let u = (self.next_u64() >> 11) as f64 / (1u64 << 53) as f64;
        let v = (l + (h - l) * u).exp();
        (v as u64).clamp(lo, hi)
    }

    pub fn bytes(&mut self, n: usize) -> Vec<u8> {
        let mut v = Vec::with_capacity(n);
        while v.len() < n {
            let x = self.next_u64().to_le_bytes();
            let take = (n - v.len()).min(8);
            v.extend_from_slice(&x[..take]);
        }
        v
    }
}
